"""Independent reader of refs/notes/ai and parser of the Git AI Standard v3 note text.

Written from specs/git_ai_standard_v3.0.0.md; shares no code with git-ai.
"""
import json
import re

HEX16 = re.compile(r"^[0-9a-f]{16}$")
HEX = re.compile(r"^[0-9a-fA-F]+$")
RANGE_RE = re.compile(r"^(\d+)(?:-(\d+))?$")


class NoteError(Exception):
    pass


class Note:
    __slots__ = ("files", "meta", "raw", "order", "problems")

    def __init__(self):
        self.files = {}      # path -> {hash: set(lines)}
        self.order = []      # [(path, hash, [(a,b),...])] in textual order
        self.meta = None
        self.raw = None
        self.problems = []   # grammar problems that do not prevent reading

    def ai_lines(self, path):
        return self.files.get(path, {})

    def sessions(self):
        return {h for d in self.files.values() for h in d}


def parse_note(text):
    """Strict parser of the v3 grammar. Raises NoteError when the text cannot be read at all."""
    n = Note()
    n.raw = text
    lines = text.split("\n")
    try:
        div = lines.index("---")
    except ValueError:
        raise NoteError("no divider line")
    head, meta = lines[:div], "\n".join(lines[div + 1:])
    try:
        n.meta = json.loads(meta)
    except ValueError as e:
        raise NoteError("metadata is not JSON: %s" % e)
    if not isinstance(n.meta, dict):
        raise NoteError("metadata is not an object")
    cur = None
    for ln in head:
        if ln == "":
            continue
        if ln.startswith("  "):
            if cur is None:
                raise NoteError("entry before any path line")
            body = ln[2:]
            if " " not in body:
                raise NoteError("entry without range spec: %r" % ln)
            h, spec = body.split(" ", 1)
            if not HEX.match(h):
                n.problems.append("hash not hexadecimal: %r" % h)
            rs = []
            if spec == "" or " " in spec:
                n.problems.append("bad range spec %r" % spec)
            for part in spec.split(","):
                m = RANGE_RE.match(part)
                if not m:
                    raise NoteError("bad range %r" % part)
                a = int(m.group(1))
                b = int(m.group(2)) if m.group(2) is not None else a
                rs.append((a, b))
            s = n.files[cur].setdefault(h, set())
            for a, b in rs:
                if b < a:
                    n.problems.append("descending range %d-%d" % (a, b))
                s.update(range(a, b + 1))
            n.order.append((cur, h, rs))
        else:
            if ln.startswith(" ") or ln.startswith("\t"):
                n.problems.append("path line with leading whitespace: %r" % ln)
            if len(ln) >= 2 and ln.startswith('"') and ln.endswith('"'):
                path = ln[1:-1]
            else:
                path = ln
                if " " in path or "\t" in path:
                    n.problems.append("unquoted path with whitespace: %r" % ln)
            cur = path
            if cur in n.files:
                n.problems.append("path listed twice: %r" % cur)
            n.files.setdefault(cur, {})
    return n


def check_note_invariants(note, commit, tree_paths, line_count):
    """C05 invariants of one parsed note. tree_paths: set of paths in the commit;
    line_count(path) -> number of lines of that blob. Returns list of (rule, detail)."""
    v = []
    for p in note.problems:
        v.append(("grammar", p))
    meta = note.meta
    if meta.get("schema_version") != "authorship/3.0.0":
        v.append(("schema_version", repr(meta.get("schema_version"))))
    if meta.get("base_commit_sha") != commit:
        v.append(("base_commit_sha", "note says %r for commit %s" % (meta.get("base_commit_sha"), commit)))
    prompts = meta.get("prompts")
    if not isinstance(prompts, dict):
        v.append(("prompts", "missing prompts object"))
        prompts = {}
    for path, sess in note.files.items():
        if path not in tree_paths:
            v.append(("path-not-in-commit", path))
            continue
        if not sess:
            v.append(("file-without-entries", path))
        n = None
        for h, ls in sess.items():
            if h == "human" or h.startswith("human"):
                v.append(("human-entry", "%s %s" % (path, h)))
            if h not in prompts:
                v.append(("hash-without-prompt", "%s %s" % (path, h)))
            if not ls:
                continue
            if min(ls) < 1:
                v.append(("line<1", "%s %s" % (path, h)))
            if n is None:
                n = line_count(path)
            if max(ls) > n:
                v.append(("line>count", "%s %s max=%d count=%d" % (path, h, max(ls), n)))
    for path, h, rs in note.order:
        prev_end = 0
        for a, b in rs:
            if a <= prev_end:
                v.append(("unsorted-or-overlapping", "%s %s %r" % (path, h, rs)))
                break
            prev_end = b
    for h, rec in prompts.items():
        if not isinstance(rec, dict) or "agent_id" not in rec:
            v.append(("prompt-record", "%s lacks agent_id" % h))
    return v


class NotesReader:
    """Reads refs/notes/ai of one repository with oracle-side plumbing, caching immutable objects."""

    def __init__(self, world, repo=None, ref="refs/notes/ai"):
        self.w = world
        self.repo = repo or world.repo
        self.ref = ref
        self._blob = {}      # blob oid -> text
        self._show = {}      # (commit, path) -> lines or None
        self._paths = {}     # commit -> set(paths)

    def git(self, *a, **k):
        return self.w.ogit(*a, cwd=self.repo, **k)

    def tip(self):
        return self.git("rev-parse", "-q", "--verify", self.ref).strip() or None

    def tree(self):
        """[(mode, type, oid, path)] of the notes tree (every fan-out spelling visible)."""
        out = self.git("ls-tree", "-r", "-z", self.ref)
        res = []
        for ent in out.split("\0"):
            if not ent:
                continue
            meta, path = ent.split("\t", 1)
            mode, typ, oid = meta.split(" ")
            res.append((mode, typ, oid, path))
        return res

    def mapping(self):
        """{annotated object: [(note blob oid, tree path)]} from the raw tree."""
        m = {}
        for mode, typ, oid, path in self.tree():
            obj = path.replace("/", "")
            m.setdefault(obj, []).append((oid, path))
        return m

    def blob(self, oid):
        if oid not in self._blob:
            p = self.git("cat-file", "blob", oid, raw=True)
            self._blob[oid] = p.out.decode("utf-8", "replace") if p.rc == 0 else None
        return self._blob[oid]

    def prefetch(self, commit, paths):
        """One `git cat-file --batch` for many files of a commit (commits with hundreds of files)."""
        todo = [p for p in paths if (commit, p) not in self._show and "\n" not in p]
        if len(todo) < 50:
            return
        inp = "".join("%s:%s\n" % (commit, p) for p in todo).encode("utf-8", "surrogateescape")
        r = self.git("cat-file", "--batch", input=inp, raw=True)
        if r.rc != 0:
            return
        out, i = r.out, 0
        for p in todo:
            j = out.find(b"\n", i)
            if j < 0:
                return
            head = out[i:j].split(b" ")
            if head[-1] == b"missing" or len(head) != 3:
                self._show[(commit, p)] = None
                i = j + 1
                continue
            size = int(head[2])
            body = out[j + 1:j + 1 + size]
            i = j + 1 + size + 1
            self._show[(commit, p)] = split_lines(body.decode("utf-8", "replace")) if head[1] == b"blob" else None

    def file_lines(self, commit, path):
        k = (commit, path)
        if k not in self._show and len(self.tree_paths(commit)) > 200:
            if path not in self.tree_paths(commit):
                self._show[k] = None
                return None
            self.prefetch(commit, sorted(self.tree_paths(commit)))
        if k not in self._show:
            p = self.git("cat-file", "blob", "%s:%s" % (commit, path), raw=True)
            self._show[k] = split_lines(p.out.decode("utf-8", "replace")) if p.rc == 0 else None
        return self._show[k]

    def tree_paths(self, commit):
        if commit not in self._paths:
            out = self.git("ls-tree", "-r", "-z", "--name-only", commit)
            self._paths[commit] = {p for p in out.split("\0") if p}
        return self._paths[commit]

    def note_for(self, commit, mapping=None):
        m = mapping if mapping is not None else self.mapping()
        ents = m.get(commit)
        if not ents:
            return None
        text = self.blob(ents[0][0])
        return parse_note(text)


def split_lines(text):
    """Lines as git counts them (split on LF; a trailing fragment without LF is a line)."""
    if text == "":
        return []
    ls = text.split("\n")
    if ls[-1] == "":
        ls.pop()
    return ls
