"""C08 — transcripts and secrets never enter the shared notes unless the user opted in."""
import json
import os
import random

from ..ops import Hist
from ..world import session_hash
from ..secrets_gen import planted_token
from . import common as C

RULE = ("storage mode (production default `default`, `local`, `notes`, per-repository exclude / include-list miss) x note-writing path (commit, "
        "partial commit, amend, rebase shortcut and full replay, cherry-pick, squash merge, reset + recommit, stash/pop + commit, `ci` style "
        "squash-authorship) x agent kind (agent-v1 inline transcript; `claude` transcript on disk, re-fetched at commit); every user / assistant / "
        "thinking / plan message carries a per-session canary and planted credential-shaped tokens (pre-screened to be statistically "
        "unremarkable random strings). After EVERY step every blob reachable from every commit in `git rev-list refs/notes/ai` (history of "
        "the notes ref) and from refs/notes/ai-remote/* is scanned: outside `notes` mode no canary may appear; in `notes` mode no planted "
        "token may appear verbatim. non-trivial = a note with prompts for a session with canaries was written; distinct = (mode, agent kind, op sequence)")

MODES = ["default", "default", "default-cas", "default-cas", "local", "notes", "notes", "exclude", "include-miss"]


class Sc8(Hist):
    def setup_agents(self):
        self.kinds = {}
        self.canaries = {}
        self.tokens = {}      # session -> [(shape, token, message kind)]
        self.tool_tokens = []
        for s in self.sessions:
            kind = self.rng.choice(["agent-v1", "claude"])
            self.kinds[s] = kind
            self.canaries[s] = "CANARY-%d-%s-%04d" % (self.index, s, self.rng.randrange(10000))
            toks = []
            for mk in ("user", "assistant", "thinking", "plan"):
                sh, t = planted_token(self.rng)
                toks.append((sh, t, mk))
            self.tokens[s] = toks
            if kind == "claude":
                stem = "0000%04d-aaaa-bbbb-cccc-%012d" % (self.index % 10000, int(s[1:]))
                self.claude_path = getattr(self, "claude_path", {})
                self.claude_path[s] = os.path.join(self.w.root, "claude", stem + ".jsonl")
                self.h2s = dict(self.h2s)
                self.h2s.pop(session_hash(s), None)
                self.h2s[session_hash(stem, tool="claude")] = s
        self.turn = 0

    def messages(self, s):
        self.turn += 1
        c = self.canaries[s]
        t = {mk: tok for _, tok, mk in self.tokens[s]}
        sh, tooltok = planted_token(self.rng)
        self.tool_tokens.append(tooltok)
        # prose in front of the credentials is multi-byte in half of the turns (byte offsets and character offsets then differ)
        mb = self.vrng.choice(["", "", "これは日本語の文章です。鍵を使ってください： ", "Пожалуйста, используйте этот ключ доступа — ", "🙂🙂🙂 clé d'accès ↦ "])
        return [
            {"type": "user", "text": "%s user turn %d: %suse key %s please" % (c, self.turn, mb, t["user"])},
            {"type": "thinking", "text": "%s thinking: %sthe secret is %s" % (c, mb, t["thinking"])},
            {"type": "assistant", "text": "%s assistant: %sexported TOKEN=%s" % (c, mb, t["assistant"])},
            {"type": "plan", "text": "%s plan: %srotate %s later" % (c, mb, t["plan"])},
            {"type": "tool_use", "name": "Edit", "input": {"file_path": "x", "note": tooltok}},
        ]

    def write_claude_transcript(self, s):
        p = self.claude_path[s]
        os.makedirs(os.path.dirname(p), exist_ok=True)
        lines = []
        for m in self.messages(s):
            if m["type"] == "user":
                lines.append({"type": "user", "message": {"role": "user", "content": m["text"]}, "timestamp": "2026-01-01T00:00:00.000Z"})
            elif m["type"] in ("assistant", "plan"):
                lines.append({"type": "assistant", "message": {"role": "assistant", "model": "claude-x", "content": [{"type": "text", "text": m["text"]}]}, "timestamp": "2026-01-01T00:00:01.000Z"})
            elif m["type"] == "thinking":
                lines.append({"type": "assistant", "message": {"role": "assistant", "model": "claude-x", "content": [{"type": "thinking", "thinking": m["text"]}]}, "timestamp": "2026-01-01T00:00:01.000Z"})
            else:
                lines.append({"type": "assistant", "message": {"role": "assistant", "model": "claude-x", "content": [{"type": "tool_use", "id": "t1", "name": m["name"], "input": m["input"]}]}, "timestamp": "2026-01-01T00:00:02.000Z"})
        with open(p, "a") as f:
            for l in lines:
                f.write(json.dumps(l) + "\n")

    def pre_ai(self, session, f, repo=None):
        if self.kinds.get(session) == "claude":
            payload = {"hook_event_name": "PreToolUse", "transcript_path": self.claude_path[session], "cwd": repo or self.w.repo,
                       "tool_name": "Edit", "tool_input": {"file_path": os.path.join(repo or self.w.repo, f)}}
            self.write_claude_transcript(session)
            p = self.w.ga("checkpoint", "claude", "--hook-input", json.dumps(payload), cwd=repo)
            self.w._ck(p)
        else:
            super().pre_ai(session, f, repo)

    def post_ai(self, session, f, repo=None):
        if self.kinds.get(session) == "claude":
            payload = {"hook_event_name": "PostToolUse", "transcript_path": self.claude_path[session], "cwd": repo or self.w.repo,
                       "tool_name": "Edit", "tool_input": {"file_path": os.path.join(repo or self.w.repo, f)}}
            self.write_claude_transcript(session)
            p = self.w.ga("checkpoint", "claude", "--hook-input", json.dumps(payload), cwd=repo)
            self.w._ck(p)
        else:
            self.w.ai_ckpt(session, [f], cwd=repo, messages=self.messages(session))

    # ---- the scan
    def scan_notes(self, where, mode):
        """Every blob reachable from every commit of the notes ref history (and tracking refs)."""
        # the shared notes ref and its remote-tracking copies (refs/notes/ai-stash is a local scratch ref that is never pushed)
        refs = [r for r in self.w.ogit("for-each-ref", "--format=%(refname)", "refs/notes").split() if r == "refs/notes/ai" or r.startswith("refs/notes/ai-remote/")]
        if not refs:
            return
        commits = self.w.ogit("rev-list", *refs).split()
        seen = self.__dict__.setdefault("_scanned_blobs", set())
        for nc in commits:
            if nc in seen:
                continue
            seen.add(nc)
            for ent in self.w.ogit("ls-tree", "-r", nc).splitlines():
                meta, _, path = ent.partition("\t")
                blob = meta.split()[2]
                if blob in seen:
                    continue
                seen.add(blob)
                text = self.w.ogit("cat-file", "blob", blob)
                self.stats["note_blobs_scanned"] += 1
                if '"prompts"' in text and '"agent_id"' in text:
                    self.stats["blobs_with_prompt_records"] += 1
                if mode != "notes":
                    for s, c in self.canaries.items():
                        if c in text:
                            self.violation("C08/transcript-in-notes", mode=mode, session=s, agent=self.kinds[s], notes_commit=nc, path=path, where=where)
                            return
                else:
                    if any(c in text for c in self.canaries.values()):
                        self.stats["blobs_with_transcripts(notes mode)"] += 1
                    for s, toks in self.tokens.items():
                        for sh, t, mk in toks:
                            if t in text:
                                self.violation("C08/secret-not-masked", shape=sh, message_kind=mk, token=t, session=s, agent=self.kinds[s], notes_commit=nc, where=where)
                                return
                    for t in self.tool_tokens:
                        if t in text:
                            self.stats["tool_use_tokens_seen_verbatim(not asserted)"] += 1

    def after_step(self, where):
        super().after_step(where)
        self.scan_notes(where, self.mode)


def run_case(case):
    seed, index, flags_off = case["seed"], case["index"], case.get("flags_off", [])
    prng = random.Random("%s:C08p:%s" % (seed, index))
    prof = C.base_profile(prng, flags_off, hostile=False)
    mode = prng.choice(MODES)
    cfg = {}
    ps = mode
    if mode == "exclude":
        ps = "notes"    # global says notes, but this repository is excluded -> must fall back to not sharing
    if mode == "include-miss":
        ps = "notes"
    if mode == "default-cas":
        # production default with the upload queue ACTIVE (a non-default API base makes it active without a login; nothing listens
        # on the port and the background flush is off): transcripts go to the local queue, never into the note
        ps = "default"
        cfg["api_base_url"] = "http://127.0.0.1:9"
    sc = Sc8("C08", seed, index, prof, world_kwargs=dict(prompt_storage=ps, config_extra=cfg))
    sc.mode = mode
    try:
        rng = sc.rng
        if mode in ("exclude", "include-miss"):
            # a remote URL is needed for per-repository rules
            sc.w.git("remote", "add", "origin", "https://example.invalid/org/this-repo.git", plain=True, tick=False)
            if mode == "exclude":
                sc.w.config["exclude_prompts_in_repositories"] = ["https://example.invalid/org/this-repo.git", "*this-repo*"]
            else:
                sc.w.config["include_prompts_in_repositories"] = ["https://example.invalid/org/another-repo.git"]
            sc.w.write_config()
        sc.setup_agents()
        sc.profile["rebase_pending_untracked"] = True      # sessions go on working (new files) while their commits are rebased
        C.setup_repo(sc, 3, 10)
        for k in range(rng.choice([2, 3])):
            op = rng.choice(["commit", "partial", "amend", "amend-leftover", "rebase", "cherry", "squash", "reset", "stash"] +
                            (["ci"] if mode not in ("exclude", "include-miss") else []))   # those modes need a (fake) remote URL of their own
            where = "op %d %s" % (k, op)
            if op == "reset":
                sc.begin_undoable()
            first_who = rng.choice(sc.sessions)
            sc.do_edit(author=first_who)
            if op == "commit":
                sc.commit_all("c")
            elif op == "partial":
                sc.do_edit(author=rng.choice(sc.sessions)); sc.op_hunk_commit(); sc.commit_all("rest")
            elif op == "amend":
                sc.commit_all("to-amend")
                sc.do_edit(author=rng.choice(sc.sessions), kinds=["ins", "rep"])
                sc.op_amend()
            elif op == "amend-leftover":
                # one session edits two files, only one is committed (the rest stays pending with its raw prompt record),
                # then the left-over is folded in by --amend without any further agent activity
                who = rng.choice(sc.sessions)
                others = [x for x in sc.files if x != sc.log[-1][1]] or sc.files
                sc.do_edit(author=who, f=rng.choice(others))
                f_first = sc.log[-2][1]
                sc.g("add", "--", f_first)
                pc = sc.g("commit", "-q", "-m", "only one file")
                if pc.rc != 0:
                    # nothing was staged (the session's edits cancelled out): amending would rewrite an unrelated earlier commit with
                    # an agent's delete-only work, which is finding D12's shape; plain commit instead
                    sc.commit_all("rest")
                else:
                    if rng.random() < 0.5 and sc.profile.get("amend_human_edit", True):
                        sc.do_edit(author="human", kinds=["ins"])
                    sc.g("add", "-A"); sc.g("commit", "-q", "--amend", "-m", "amended with the rest")
                    sc.ops.append("amend:leftover")
            elif op == "reset":
                sc.commit_all("to-undo")
                sc.op_reset(mode=rng.choice(["--soft", "--mixed"]))
                if rng.random() < 0.5:
                    sc.do_edit(author=first_who, kinds=["ins"])      # the same conversation goes on after the un-do
                sc.commit_all("again")
            elif op == "stash":
                sc.op_stash()
                sc.commit_all("after-stash")
            else:
                sc.commit_all("pre")
                {"rebase": sc.op_rebase, "cherry": sc.op_cherry_pick, "squash": lambda: sc.op_squash_merge(continue_session=rng.random() < 0.5), "ci": sc.op_ci_rewrite}[op]()
            sc.after_step(where)
            if sc.viol or sc.inconclusive:
                break
        if not sc.viol and not sc.inconclusive and not sc.in_progress():
            sc.commit_all("final")
            sc.after_step("final")
        r = C.finish(sc, prof, index, nontrivial=sc.stats["blobs_with_prompt_records"] > 0)
        r["sig"] = "%s|%s|%s" % (mode, sorted(set(sc.kinds.values())), r["sig"])
        return r
    finally:
        sc.destroy()


def main(tier, seed, replay=None):
    return C.standard_main("C08", run_case, RULE, "exploration",
                           ["canaries identify conversation text by substring; planted tokens are pre-screened by the framework's own statistics so that the detector's design false-negative rate stays out of the verdict",
                            "tokens inside tool_use inputs are recorded, not asserted (the property says conversation text)",
                            "the upload queue is made active by a non-default api_base_url (mode default-cas); the upload itself never happens (no network): what is checked is that queued transcripts do not also stay in the note"],
                           tier, seed, replay, 50, 480)
