"""C01 — a commit's AI attribution is exactly the lines the agents wrote (ledger oracle)."""
from ..engine import Scenario
from .. import runner as R

RULE = ("random edit scripts (1-4 files, 0-40 initial lines, 1-3 commits of 1-8 edits by a human and 1-3 AI sessions; insert/delete/replace/"
        "intra-line modify/re-indent; hostile line prefixes, file names, CRLF, no-EOL, decoy blank/duplicate lines per case profile), "
        "each commit committing everything; non-trivial = at least one AI line expected in a note and the note/blame observed; "
        "distinct = distinct (profile, op-kind sequence) signatures")


def profile_for(rng, flags_off):
    p = dict(sessions=rng.choice([1, 2, 2, 3]), files=rng.choice([1, 1, 2, 3, 4]),
             hostile_content=rng.random() < 0.7, hostile_names=rng.random() < 0.3,
             crlf=rng.random() < 0.2, no_final_nl=rng.random() < 0.25, decoys=rng.random() < 0.3,
             human_ckpt_rate=rng.choice([0.0, 0.0, 0.3, 1.0]), long_lines=rng.random() < 0.2)
    if rng.random() < 0.2:
        # diff-syntax focus: one file, most lines start with text that looks like unified-diff syntax once git prefixes it with
        # + or -, and the edits are mostly replacements (hunks with removed AND added lines) followed by further hunks in the same file
        p.update(files=1, diff_syntax=True, hostile_content=True, decoys=False)
    for f in flags_off:
        p[f] = False
    return p


def run_case(case):
    import random
    seed, index, flags_off = case["seed"], case["index"], case.get("flags_off", [])
    prng = random.Random("%s:C01p:%s" % (seed, index))
    prof = profile_for(prng, flags_off)
    sc = Scenario("C01", seed, index, prof)
    try:
        rng = sc.rng
        files = sc.choose_files()
        root_ai = rng.random() < 0.15
        diffy = bool(prof.get("diff_syntax"))
        for f in files:
            n0 = rng.choice([0, 1, 3, 6, 12, 40]) if not diffy else rng.choice([12, 25, 40])
            sc.write(f, [sc.fresh("human", hostile=diffy) for _ in range(n0)])
        if root_ai:
            # the root commit itself contains AI lines
            sc.do_edit(author=rng.choice(sc.sessions), f=files[0], kinds=["ins"])
        sc.commit_all("init")
        sc.after_step("init")
        c0 = sc.head()
        if root_ai:
            sc.check_commit_exact(c0, "root", rule="C01")
        for ci in range(rng.choice([1, 1, 2, 3])):
            for _ in range(rng.randrange(1, 9) if not diffy else rng.randrange(3, 9)):
                sc.do_edit(kinds=["rep", "rep", "rep", "ins", "ins", "del", "mod"] if diffy else None)
            sc.commit_all("c%d" % ci)
            c = sc.head()
            sc.after_step("commit %d" % ci)
            sc.check_commit_exact(c, "commit %d" % ci, rule="C01")
            sc.check_blame_tip("commit %d" % ci, rule="C01")
            if sc.viol or sc.inconclusive:
                break
        r = sc.finish()
        r["nontrivial"] = sc.stats["ai_lines_expected"] > 0
        r["sig"] = "%s|%s" % (sorted(k for k, v in prof.items() if v is True), r["sig"])
        r["sample"] = dict(index=index, profile=prof, steps=sc.log[:40])
        return r
    finally:
        sc.destroy()


def main(tier, seed, replay=None):
    rep = R.Report("C01", tier, seed, "exploration", RULE,
                   ["ledger oracle exact only for unique-token lines; decoys get the soundness direction only",
                    "git 2.39.5, debug profile, agent-v1 protocol (human checkpoint before, AI checkpoint after each agent edit)"])
    flags_off = sorted(R.trigger_off_flags("C01"))
    if replay:
        import json
        case = json.load(open(replay))["case"]
        r = R._worker((run_case, case))
        rep.add_results([r])
        return rep.finish(min_nontrivial=0)
    from . import witnesses
    witnesses.replay_for(rep, "C01")
    n = 100000
    cases = (dict(seed=seed, index=i, flags_off=flags_off) for i in range(n))
    res = R.run_pool(run_case, cases, R.budget(tier, 50, 480))
    rep.add_results(res)
    rep.extra["trigger_flags_off"] = flags_off
    return rep.finish()
