"""C12 — results do not depend on the user's git configuration or invocation context (metamorphic)."""
import json
import os
import random
import stat

from ..ops import Hist
from ..engine import key
from . import common as C
from .c19 import check_commit_stats

RULE = ("each case runs one seeded script (edits, full/partial commits, one optional rebase or cherry-pick; unicode and space-containing file "
        "names always present) under the neutral configuration and again under hostile settings X: subsets of {diff.noprefix, mnemonicPrefix, "
        "src/dstPrefix, diff.external and GIT_EXTERNAL_DIFF (script printing garbage), textconv driver via .gitattributes, color.ui/diff=always, "
        "diff.renames=copies, diff.algorithm=*, indentHeuristic, interHunkContext, diff.context, orderFile, diff.relative, core.quotePath, "
        "core.pager/pager.*, core.abbrev, core.autocrlf, blame.* (coloring, showEmail, date, markIgnoredLines), notes.displayRef, core.notesRef / "
        "GIT_NOTES_REF, status.showUntrackedFiles, status.renames, merge.conflictStyle, log.showSignature, log.showRoot, grep.patternType, i18n.*} x invocation context "
        "{repository root, a subdirectory, another directory with -C, a linked worktree, a subdirectory or -C combined with another global option, several -C}; compared per commit (first-parent order): note "
        "projection file -> session -> content keys, final blame maps, stats numbers; the ledger is asserted on every run. "
        "non-trivial = AI lines at stake and at least one setting/context applied; distinct = (settings, context, op sequence)")

SETTINGS = {
    "noprefix": "[diff]\n\tnoprefix = true\n",
    "mnemonic": "[diff]\n\tmnemonicPrefix = true\n",
    "prefixes": "[diff]\n\tsrcPrefix = OLD/\n\tdstPrefix = NEW/\n",
    "external": None,      # needs a script path
    "extenv": None,        # GIT_EXTERNAL_DIFF
    "textconv": None,      # .gitattributes + driver
    "color-ui": "[color]\n\tui = always\n",
    "color-diff": "[color]\n\tdiff = always\n\tstatus = always\n\tbranch = always\n",
    "renames-copies": "[diff]\n\trenames = copies\n",
    "algo-histogram": "[diff]\n\talgorithm = histogram\n",
    "algo-patience": "[diff]\n\talgorithm = patience\n",
    "algo-minimal": "[diff]\n\talgorithm = minimal\n",
    "no-indent-heuristic": "[diff]\n\tindentHeuristic = false\n",
    "interhunk": "[diff]\n\tinterHunkContext = 5\n",
    "context": "[diff]\n\tcontext = 7\n",
    "orderfile": None,
    "relative": "[diff]\n\trelative = true\n",
    "quotepath": "[core]\n\tquotePath = true\n",
    "noquotepath": "[core]\n\tquotePath = false\n",
    "pager": "[core]\n\tpager = cat -A\n[pager]\n\tdiff = cat -n\n\tlog = cat -n\n\tblame = cat -n\n\tshow = cat -n\n",
    "abbrev": "[core]\n\tabbrev = 4\n",
    "autocrlf-input": "[core]\n\tautocrlf = input\n",
    "blame-cfg": "[blame]\n\tcoloring = highlightRecent\n\tshowEmail = true\n\tdate = relative\n\tmarkIgnoredLines = true\n\tmarkUnblamableLines = true\n\tshowRoot = true\n\tblankBoundary = true\n",
    "notes-display": "[notes]\n\tdisplayRef = refs/notes/*\n",
    "notesref": "[core]\n\tnotesRef = refs/notes/other\n",
    "notesref-env": None,
    "untracked-no": "[status]\n\tshowUntrackedFiles = no\n",
    "status-renames": "[status]\n\trenames = copies\n\tshort = true\n\tbranch = true\n",
    "conflictstyle": "[merge]\n\tconflictStyle = diff3\n",
    "showsignature": "[log]\n\tshowSignature = false\n\tdecorate = full\n\tabbrevCommit = true\n",
    "showroot": "[log]\n\tshowRoot = false\n",
    "grep-fixed": "[grep]\n\tpatternType = fixed\n\tlineNumber = true\n\tcolumn = true\n\tfullName = true\n",
    "grep-perl": "[grep]\n\tpatternType = perl\n\textendedRegexp = true\n\tthreads = 1\n",
    "i18n": "[i18n]\n\tlogOutputEncoding = ISO-8859-1\n\tcommitEncoding = UTF-8\n",
    "rewriteref": "[notes]\n\trewriteRef = refs/notes/*\n[notes \"rewrite\"]\n\trebase = true\n\tamend = true\n",
}
CONTEXTS = ["root", "subdir", "dash-C", "worktree", "subdir-c", "dash-C-c", "dash-C-C", "gitdir-worktree", "env-relocated"]


def script(sc, context):
    rng = sc.rng
    # the same name at the root and in the sub-directory; a name that git always C-quotes (double quote / backslash / TAB) AND that
    # contains non-ASCII characters (inside such quotes core.quotePath decides whether those are octal-escaped)
    sc.files = ["src/unié 中.txt", "a b.txt", "plain.txt", "src/plain.txt", rng.choice(['café "draft".txt', "tab\tné.txt"] + (["back\\slash é.txt"] if sc.profile.get("name:backslash", True) else []))]
    for f in sc.files:
        sc.write(f, [sc.fresh("human", hostile=False) for _ in range(rng.randrange(3, 9))])
    sc.w.subdir = "src"
    sc.commit_all("init")
    if context == "worktree":
        wt = os.path.join(sc.w.root, "wt2")
        sc.w.git("worktree", "add", "-q", "-b", "wtbranch", wt, plain=True, tick=False)
        sc.w.main_repo = sc.w.repo
        sc.w.repo = wt
        sc.nr.repo = wt
    elif context == "env-relocated":
        # the repository is located through the environment, and the work tree is NOT the directory that holds `.git`
        # (GIT_DIR=<store>/.git GIT_WORK_TREE=<tree>, both absolute: dot-file managers, deployment checkouts, IDE integrations)
        store = os.path.join(sc.w.root, "store")
        os.makedirs(store)
        os.rename(os.path.join(sc.w.repo, ".git"), os.path.join(store, ".git"))
        for e in (sc.w.env_base, sc.w.oracle_env):
            e["GIT_DIR"] = os.path.join(store, ".git")
            e["GIT_WORK_TREE"] = sc.w.repo
    elif context in ("subdir", "dash-C", "subdir-c", "dash-C-c", "dash-C-C", "gitdir-worktree"):
        sc.w.invoke = context
        if context in ("subdir", "subdir-c"):
            sc.blame_ctx = "subdir"     # `git-ai blame` has no -C; outside any repository git blame itself refuses an absolute path
    sc.after_step("init")
    for ci in range(rng.choice([2, 3])):
        for _ in range(rng.randrange(1, 5)):
            sc.do_edit()
        if rng.random() < 0.35:
            sc.do_create(author=rng.choice(sc.sessions))      # a brand-new, still untracked file written by an agent
        k = rng.choice(["all", "all", "hunks", "files"])
        if k == "hunks":
            sc.op_hunk_commit()
        elif k == "files":
            sc.op_partial_commit()
        else:
            sc.commit_all("c%d" % ci)
        sc.after_step("commit %d" % ci)
        if sc.viol:
            return
    sc.commit_all("mid")
    op = rng.choice(["none", "rebase", "cherry"])
    if getattr(sc, "force_rewrite", None):
        op = sc.force_rewrite
    if op == "rebase-same-file":
        # the full replay (upstream changed the same file): prompt records are looked up in older notes with internal `git grep` / `git log` calls
        sc.op_rebase(kind="plain", upstream_where="same")
    elif op == "rebase":
        sc.op_rebase(kind="plain")
    elif op == "cherry":
        sc.op_cherry_pick(kind="one")
    sc.after_step("rewrite " + op)
    if sc.viol or sc.in_progress():
        return
    sc.commit_all("final")
    sc.after_step("final")
    sc.check_blame_tip("final", rule="C12")


def projection(sc):
    commits = list(reversed(sc.w.ogit("rev-list", "--first-parent", "HEAD").split()))
    mapping = sc.nr.mapping()
    notes = []
    stats = []
    for c in commits:
        try:
            n = sc.nr.note_for(c, mapping)
        except Exception:
            n = None
        proj = {}
        if n:
            added = sc.diff_added(c)
            for f, d in n.files.items():
                ls = sc.show_lines(c, f) or []
                for h, lines in d.items():
                    ks = sorted(key(ls[i - 1]) for i in lines if 1 <= i <= len(ls) and i in added.get(f, ()))
                    if ks:
                        proj.setdefault(f, {})[sc.h2s.get(h, h)] = ks
        notes.append(proj)
        p = sc.w.ga("stats", c, "--json")
        try:
            st = json.loads([l for l in p.stdout.strip().split("\n") if l.startswith("{")][-1])
            stats.append({k: st.get(k) for k in ("human_additions", "mixed_additions", "ai_additions", "ai_accepted", "git_diff_added_lines", "git_diff_deleted_lines")})
        except (IndexError, ValueError):
            stats.append("unparsable rc=%d %s" % (p.rc, p.stderr[-100:]))
    blame = {}
    for f in sc.tracked():
        if f == ".gitattributes":
            continue
        b = sc.blame(f)
        ls = sc.read(f)
        blame[f] = sorted((key(ls[i - 1]), sc.h2s.get(h, h)) for i, h in (b or {}).items() if h in sc.h2s and 1 <= i <= len(ls)) if b is not None else "blame-failed"
    return dict(notes=notes, stats=stats, blame=blame)


def apply_settings(world, names, root):
    cfg = ""
    env = {}
    garbage = os.path.join(root, "garbage-diff.sh")
    with open(garbage, "w") as f:
        f.write("#!/bin/sh\necho 'GARBAGE +++ b/nothing @@ -1,9 +1,9 @@ external diff output'\nexit 0\n")
    os.chmod(garbage, stat.S_IRWXU)
    tc = os.path.join(root, "textconv.sh")
    with open(tc, "w") as f:
        f.write("#!/bin/sh\ntr 'a-z' 'A-Z' < \"$1\"\necho extra-line-from-textconv\n")
    os.chmod(tc, stat.S_IRWXU)
    for n in names:
        if n == "external":
            cfg += "[diff]\n\texternal = %s\n" % garbage
        elif n == "extenv":
            env["GIT_EXTERNAL_DIFF"] = garbage
        elif n == "textconv":
            cfg += "[diff \"tc\"]\n\ttextconv = %s\n\tcachetextconv = false\n[core]\n\tattributesFile = %s\n" % (tc, os.path.join(root, "gitattributes"))
            with open(os.path.join(root, "gitattributes"), "w") as f:
                f.write("*.txt diff=tc\n")
        elif n == "orderfile":
            of = os.path.join(root, "orderfile")
            with open(of, "w") as f:
                f.write("plain.txt\n*.txt\n")
            cfg += "[diff]\n\torderFile = %s\n" % of
        elif n == "notesref-env":
            env["GIT_NOTES_REF"] = "refs/notes/elsewhere"
        else:
            cfg += SETTINGS[n]
    with open(world.gitconfig, "a") as f:
        f.write(cfg)
    world.env_base.update(env)


def run_case(case):
    seed, index, flags_off = case["seed"], case["index"], case.get("flags_off", [])
    prng = random.Random("%s:C12p:%s" % (seed, index))
    prof = C.base_profile(prng, flags_off, hostile=False)
    prof["decoys"] = False
    names_pool = [n for n in SETTINGS if ("setting:" + n) not in flags_off]
    if case.get("tier") == "thorough" and index < len(names_pool):
        names = [names_pool[index]]            # every single setting on its own
    else:
        names = prng.sample(names_pool, prng.choice([1, 2, 3, 5]))
    context = prng.choice(CONTEXTS)
    force_rewrite = None
    if prng.random() < 0.25:
        # settings that reach the internal calls of the rewrite paths are paired with a rewrite that takes the full replay
        force_rewrite = "rebase-same-file"
        extra = prng.choice([n for n in ("grep-fixed", "grep-perl", "color-ui", "color-diff", "i18n", "pager", "abbrev", "notes-display") if n in names_pool])
        if extra not in names:
            names = names + [extra]
    if case.get("force_settings") is not None:      # triage aid: tools/rerun.py C12 <seed> <index> <flags> '{"force_settings": [...], "force_context": "root"}'
        names = list(case["force_settings"])
    context = case.get("force_context", context)
    base = Hist("C12", seed, index, prof)
    var = None
    try:
        base.force_rewrite = force_rewrite
        script(base, "root")
        if base.viol or base.inconclusive or base.in_progress():
            return C.finish(base, prof, index)
        ref = projection(base)
        var = Hist("C12", seed, index, prof)
        apply_settings(var.w, names, var.w.root)
        var.force_rewrite = force_rewrite
        script(var, context)
        if var.inconclusive or var.in_progress():
            base.inconclusive = "variant run: %s" % (var.inconclusive or "in progress")
            return C.finish(base, prof, index)
        if var.viol:
            for v in var.viol:
                v["settings"] = names; v["context"] = context
                base.viol.append(v)
            base.log = var.log
        else:
            got = projection(var)
            for part in ("notes", "stats", "blame"):
                if ref[part] != got[part]:
                    if part == "blame":
                        diff = [(f, ref[part].get(f) if not isinstance(ref[part].get(f), list) else [x for x in ref[part][f] if x not in (got[part].get(f) or [])][:4],
                                 got[part].get(f) if not isinstance(got[part].get(f), list) else [x for x in got[part][f] if x not in (ref[part].get(f) or [])][:4])
                                for f in sorted(set(ref[part]) | set(got[part])) if ref[part].get(f) != got[part].get(f)][:3]
                    else:
                        diff = [(i, a, b) for i, (a, b) in enumerate(zip(ref[part], got[part])) if a != b][:3] or [("len", len(ref[part]), len(got[part]))]
                    base.violation("C12/%s-differ" % part, settings=names, context=context, diff=diff)
                    base.log = var.log
        base.stats["variant_runs"] += 1
        r = C.finish(base, prof, index, nontrivial=base.stats["ai_lines_expected"] > 0)
        r["sig"] = "%s|%s|%s" % (sorted(names), context, r["sig"])
        r["sample"]["settings"] = names; r["sample"]["context"] = context
        return r
    finally:
        base.destroy()
        if var:
            var.destroy()


def main(tier, seed, replay=None):
    return C.standard_main("C12", run_case, RULE, "exploration",
                           ["metamorphic equality against the run under the neutral configuration; decoy (blank/duplicate) lines are disabled because diff algorithms may legitimately align them differently",
                            "settings that change what git does (not what it prints) are compared only where the ledger says the answer must not change"],
                           tier, seed, replay, 60, 600)
