"""C11 — concurrent git-ai activity in one repository loses nothing (sync-point controller, bounded exhaustive)."""
import glob
import json
import os
import subprocess
import time

from ..world import World, BIN, session_hash
from .. import runner as R
from .. import notes as N
from . import witnesses

RULE = ("2 (thorough: also 3) git-ai processes are started with GIT_AI_VERIF_SYNC_DIR so that each parks at the named sync points placed between "
        "its critical sections (before the read and before the write of checkpoints.jsonl / INITIAL / rewrite_log, before `git notes add`, between "
        "tip read and fast-import of the batched notes writer); a controller waits until every live process is parked or has exited and releases "
        "one of them, following a schedule; a stateless depth-first enumerator walks ALL schedules of each operation pair {checkpoint||checkpoint on "
        "different files, on the same file, checkpoint||commit, commit||commit in two linked worktrees, commit||rebase in two worktrees}; a "
        "free-running stress (8-16 parallel checkpoints, no sync points) complements it. Oracle (serial equivalence reduced to its observable core): "
        "every reported session has its checkpoint record and, after the next commit, its lines are AI(S); every commit has a valid note; every "
        "journal parses. A lost checkpoint whose schedule shows two append_checkpoint read..write windows overlapping on the same journal is the "
        "open finding D8 (identified by call site) and is counted, not re-reported. distinct = distinct executed schedules (sync-point sequences)")

POINTS = "checkpoints.,initial.,rewrite_log.,notes_add"


class Ctl:
    def __init__(self, name, shim=False):
        # shim: git-ai's internal git calls go through the recording stand-in, which doubles as a sync point BETWEEN two internal git
        # processes (GITSHIM_SYNC_*): windows that lie between two git spawns have no line of git-ai code to put a sync point on
        self.w = World(name=name, mode="wrapper", shim=shim)
        self.shim = shim
        w = self.w
        for f in ("a.txt", "b.txt", "c.txt"):
            w.write_bytes(f, b"one\ntwo\nthree\n")
        w.git("add", "-A"); w.git("commit", "-q", "-m", "init")
        self.sync = os.path.join(w.root, "sync")
        os.makedirs(self.sync)
        self.procs = []
        self.trace_seq = []

    def env(self, **extra):
        e = self.w.env(dict(GIT_AI_VERIF_SYNC_DIR=self.sync, GIT_AI_VERIF_SYNC_POINTS=POINTS + getattr(self, "more_points", "")))
        if self.shim:
            e.update(GITSHIM_SYNC_DIR=self.sync, GITSHIM_SYNC_MATCH=getattr(self, "shim_points", "notes,update-ref,show-ref,merge-base"))
        e.update(extra)
        return e

    def spawn(self, argv, cwd=None, git=False):
        e = self.env()
        if git:
            e["GIT_AI"] = "git"
        p = subprocess.Popen([BIN] + argv, cwd=cwd or self.w.repo, env=e, stdout=subprocess.PIPE, stderr=subprocess.PIPE)
        self.procs.append(p)
        return p

    def spawn_later(self, argv, cwd=None, git=False):
        """Start this process only once HEAD has moved (the other process's `git commit` has created its commit): an agent report that
        begins while git-ai's post-commit work for that commit is still running."""
        self.later = getattr(self, "later", []) + [(argv, cwd, git)]
        self.head0 = self.w.ogit("rev-parse", "HEAD").strip()

    def _maybe_spawn_later(self, force=False):
        if getattr(self, "later", None) and (force or self.w.ogit("rev-parse", "HEAD").strip() != self.head0):
            for argv, cwd, git in self.later:
                self.spawn(argv, cwd=cwd, git=git)
            self.later = []
            return True
        return False

    def parked(self):
        """{proc index: wait-file path} for processes currently parked."""
        out = {}
        for i, p in enumerate(self.procs):
            fs = sorted(glob.glob(os.path.join(self.sync, "%d.*.wait" % p.pid)))
            fs = [f for f in fs if not os.path.exists(f[:-5] + ".go")]
            if fs:
                out[i] = fs[0]
        return out

    def run_schedule(self, choices, timeout=60):
        """Release parked processes one at a time following `choices`; returns (sequence, option counts)."""
        seq, opts = [], []
        t0 = time.time()
        step = 0
        quiet = 0
        exited = set()
        while True:
            self._maybe_spawn_later()
            alive = [i for i, p in enumerate(self.procs) if p.poll() is None]
            if not alive and self._maybe_spawn_later(force=True):
                continue
            for i in range(len(self.procs)):
                if i not in alive and i not in exited:
                    exited.add(i)
                    seq.append((i, "exit"))
            if not alive:
                break
            pk = self.parked()
            # wait until every live process is parked (or, after a quiet period, treat the others as blocked e.g. on a git lock)
            if len(pk) < len(alive):
                time.sleep(0.003)
                quiet += 1
                if time.time() - t0 > timeout:
                    for p in self.procs:
                        if p.poll() is None:
                            p.kill()
                    return seq, opts, "watchdog"
                if not pk or quiet < 150:
                    continue
            quiet = 0
            cands = sorted(pk)
            c = choices[step] if step < len(choices) else 0
            c = min(c, len(cands) - 1)
            opts.append(len(cands))
            who = cands[c]
            wf = pk[who]
            point = os.path.basename(wf).split(".", 2)[2][:-5]
            seq.append((who, point))
            open(wf[:-5] + ".go", "w").close()
            step += 1
            # wait for the wait-file to disappear (process resumed)
            for _ in range(2000):
                if not os.path.exists(wf):
                    break
                time.sleep(0.002)
        outs = [(p.returncode, p.stdout.read().decode("utf-8", "replace")[-200:], p.stderr.read().decode("utf-8", "replace")[-400:]) for p in self.procs]
        return seq, opts, outs

    def destroy(self):
        for p in self.procs:
            if p.poll() is None:
                p.kill()
        self.w.destroy()


def ai_payload(w, repo, session, f):
    return json.dumps({"type": "ai_agent", "repo_working_dir": repo, "edited_filepaths": [f], "transcript": {"messages": [{"type": "user", "text": "x"}]},
                       "agent_name": "tool", "model": "m", "conversation_id": session})


def overlapping_windows(seq, journal="checkpoints", domains=None, is_git=None):
    """Finding D8 by call site. True when two processes were inside their lost-update windows ON THE SAME JOURNAL at the same moment of
    the schedule (sync-point names carry the journal's identity: `checkpoints.read@<working log dir>`).  The windows are those of the
    unchanged code: for an agent report, from entering `append_checkpoint` (sync point `checkpoints.append`, immediately followed by
    the read it appends to) to the release of its `checkpoints.write`; for a git command (the post-commit consumer reads the journal,
    writes the note and archives the log), from its first read of that journal to its exit.  A lost report whose schedule shows no
    such overlap - a report appended to a journal snapshot read *before* `append_checkpoint`, or a journal wiped by a process that
    never read it - is not this finding."""
    inside = {}          # journal id -> set of processes inside a window on it
    for who, point in seq:
        name, _, jid = point.partition("@")
        git = bool(is_git[who]) if is_git else False
        if (name == journal + ".append" and not git) or (name == journal + ".read" and git):
            inside.setdefault(jid, set()).add(who)
            if len(inside[jid]) > 1:
                return True
        elif point == "exit":
            for v in inside.values():
                v.discard(who)
        elif name == journal + ".write" and not git:
            inside.get(jid, set()).discard(who)
    return False


def report_straddles_git_command(seq, is_git):
    """Finding D74 by call site. True when an agent report started reading the journal (from which it derives the list of files to
    re-examine, together with `git status`) BEFORE a git command had finished and entered `append_checkpoint` only AFTER that git command
    had exited: the report was computed, at least in part, against a state that the git command (stash, reset, amend: operations that
    change the work tree / working log without moving HEAD) has since replaced. (When HEAD moves in between, the report lands in the old
    commit's working log instead: finding D45.)"""
    first, app, ex = {}, {}, {}
    for i, (who, point) in enumerate(seq):
        name = point.partition("@")[0]
        if point == "exit":
            ex[who] = i
            continue
        first.setdefault(who, i)
        if name == "checkpoints.append":
            app.setdefault(who, i)
    for a in first:
        if is_git[a] or a not in app:
            continue
        for g in first:
            if is_git[g] and g in ex and first[a] < ex[g] < app[a]:
                return True
    return False


def scenario(kind, choices, serial=None):
    """Run one operation pair under a schedule (or serially in the given order, no sync points) and return its observable outcome."""
    c = Ctl("C11", shim=(kind == "fetch-commit-wt"))
    w = c.w
    viol = []
    try:
        repo = w.repo
        wt = None
        cmds = []          # (argv, cwd, git)
        probes = []        # (worktree path, file, line text)
        if kind in ("ckpt-ckpt-diff", "ckpt-ckpt-same"):
            fa, fb = ("a.txt", "b.txt") if kind.endswith("diff") else ("a.txt", "a.txt")
            w.human_ckpt([fa]); w.human_ckpt([fb])
            la = (w.read_bytes(fa) or b"").decode() + "ai line of S1\n"
            w.write_bytes(fa, la.encode())
            if fb != fa:
                w.write_bytes(fb, ((w.read_bytes(fb) or b"").decode() + "ai line of S2\n").encode())
            else:
                w.write_bytes(fa, (la + "ai line of S2\n").encode())
            cmds = [(["checkpoint", "agent-v1", "--hook-input", ai_payload(w, repo, "S1", fa)], repo, False),
                    (["checkpoint", "agent-v1", "--hook-input", ai_payload(w, repo, "S2", fb)], repo, False)]
            probes = [(repo, fa, "ai line of S1"), (repo, fb, "ai line of S2")]
        elif kind == "ckpt-commit":
            w.human_ckpt(["a.txt"]); w.write_bytes("a.txt", b"one\ntwo\nthree\nai line of S1\n"); w.ai_ckpt("S1", ["a.txt"])
            w.git("add", "a.txt")
            w.human_ckpt(["b.txt"]); w.write_bytes("b.txt", b"one\ntwo\nthree\nai line of S2\n")
            cmds = [(["commit", "-q", "-m", "c1"], repo, True),
                    (["checkpoint", "agent-v1", "--hook-input", ai_payload(w, repo, "S2", "b.txt")], repo, False)]
            probes = [(repo, "a.txt", "ai line of S1"), (repo, "b.txt", "ai line of S2")]
        elif kind == "ckpt-commit-leftover":
            # the commit takes a.txt only; c.txt keeps an agent's unstaged lines (carried over to the new commit's working log as
            # INITIAL by post-commit); another agent reports b.txt while the commit is running
            w.human_ckpt(["a.txt"]); w.write_bytes("a.txt", b"one\ntwo\nthree\nai line of S1\n"); w.ai_ckpt("S1", ["a.txt"])
            w.human_ckpt(["c.txt"]); w.write_bytes("c.txt", b"one\ntwo\nthree\nai line of S3\n"); w.ai_ckpt("S3", ["c.txt"])
            w.git("add", "a.txt")
            w.human_ckpt(["b.txt"]); w.write_bytes("b.txt", b"one\ntwo\nthree\nai line of S2\n")
            cmds = [(["commit", "-q", "-m", "c1"], repo, True),
                    (["checkpoint", "agent-v1", "--hook-input", ai_payload(w, repo, "S2", "b.txt")], repo, False)]
            probes = [(repo, "a.txt", "ai line of S1"), (repo, "b.txt", "ai line of S2"), (repo, "c.txt", "ai line of S3")]
        elif kind in ("commit-commit-wt", "commit-rebase-wt"):
            wt = os.path.join(w.root, "wt2")
            w.git("worktree", "add", "-q", "-b", "other", wt, plain=True)
            for path, f, s in ((repo, "a.txt", "S1"), (wt, "b.txt", "S2")):
                w.human_ckpt([f], cwd=path); w.write_bytes(f, b"one\ntwo\nthree\nai line of %s\n" % s.encode(), path); w.ai_ckpt(s, [f], cwd=path)
                w.git("add", "-A", cwd=path)
            if kind == "commit-rebase-wt":
                w.git("commit", "-q", "-m", "on other", cwd=wt)
                w.git("branch", "newbase", "main", plain=True)
                w.write_bytes("up.txt", b"u\n", repo)
                w.ogit("add", "up.txt", cwd=repo)
                w.ogit("commit", "-q", "-m", "upstream", "--", "up.txt", cwd=repo)
                w.ogit("branch", "-f", "newbase", "main", cwd=repo)
                cmds = [(["commit", "-q", "-m", "c-main"], repo, True), (["rebase", "newbase"], wt, True)]
            else:
                cmds = [(["commit", "-q", "-m", "c-main"], repo, True), (["commit", "-q", "-m", "c-other"], wt, True)]
            probes = [(repo, "a.txt", "ai line of S1"), (wt, "b.txt", "ai line of S2")]
        elif kind == "ckpt-stash":
            # S1's reported lines in a.txt are pending; `git stash push` snapshots the pending attribution while another agent reports b.txt
            w.human_ckpt(["a.txt"]); w.write_bytes("a.txt", b"one\ntwo\nthree\nai line of S1\n"); w.ai_ckpt("S1", ["a.txt"])
            w.human_ckpt(["b.txt"]); w.write_bytes("b.txt", b"one\ntwo\nthree\nai line of S2\n")
            cmds = [(["stash", "push", "-q", "--", "a.txt"], repo, True),
                    (["checkpoint", "agent-v1", "--hook-input", ai_payload(w, repo, "S2", "b.txt")], repo, False)]
            probes = [(repo, "a.txt", "ai line of S1"), (repo, "b.txt", "ai line of S2")]
        elif kind == "ckpt-amend":
            # HEAD holds S1's line; `git commit --amend` (adding S3's staged line of c.txt) runs while another agent reports b.txt
            w.human_ckpt(["a.txt"]); w.write_bytes("a.txt", b"one\ntwo\nthree\nai line of S1\n"); w.ai_ckpt("S1", ["a.txt"])
            w.git("add", "a.txt"); w.git("commit", "-q", "-m", "c1")
            w.human_ckpt(["c.txt"]); w.write_bytes("c.txt", b"one\ntwo\nthree\nai line of S3\n"); w.ai_ckpt("S3", ["c.txt"])
            w.git("add", "c.txt")
            w.human_ckpt(["b.txt"]); w.write_bytes("b.txt", b"one\ntwo\nthree\nai line of S2\n")
            cmds = [(["commit", "-q", "--amend", "-m", "c1 amended"], repo, True),
                    (["checkpoint", "agent-v1", "--hook-input", ai_payload(w, repo, "S2", "b.txt")], repo, False)]
            probes = [(repo, "a.txt", "ai line of S1"), (repo, "b.txt", "ai line of S2"), (repo, "c.txt", "ai line of S3")]
        elif kind == "ckpt-reset":
            # the last commit (S1's line) is un-done with `reset --soft` while another agent reports b.txt
            w.human_ckpt(["a.txt"]); w.write_bytes("a.txt", b"one\ntwo\nthree\nai line of S1\n"); w.ai_ckpt("S1", ["a.txt"])
            w.git("add", "a.txt"); w.git("commit", "-q", "-m", "c1")
            w.human_ckpt(["b.txt"]); w.write_bytes("b.txt", b"one\ntwo\nthree\nai line of S2\n")
            cmds = [(["reset", "-q", "--soft", "HEAD~1"], repo, True),
                    (["checkpoint", "agent-v1", "--hook-input", ai_payload(w, repo, "S2", "b.txt")], repo, False)]
            probes = [(repo, "a.txt", "ai line of S1"), (repo, "b.txt", "ai line of S2")]
        elif kind == "commit-ckpt-wt":
            # a commit in the main work tree and an agent report in a linked work tree of the same repository (private journals)
            wt = os.path.join(w.root, "wt2")
            w.git("worktree", "add", "-q", "-b", "other", wt, plain=True)
            w.human_ckpt(["a.txt"]); w.write_bytes("a.txt", b"one\ntwo\nthree\nai line of S1\n"); w.ai_ckpt("S1", ["a.txt"])
            w.git("add", "-A")
            w.human_ckpt(["b.txt"], cwd=wt); w.write_bytes("b.txt", b"one\ntwo\nthree\nai line of S2\n", wt)
            cmds = [(["commit", "-q", "-m", "c-main"], repo, True),
                    (["checkpoint", "agent-v1", "--hook-input", ai_payload(w, wt, "S2", "b.txt")], wt, False)]
            probes = [(repo, "a.txt", "ai line of S1"), (wt, "b.txt", "ai line of S2")]
        elif kind == "cherry-cherry-wt":
            # two cherry-picks of agent commits at the same time, one in the main work tree and one in a linked work tree: each work tree
            # keeps its own record of the operation in progress (rewrite log)
            for br, f, sname in (("srcA", "a.txt", "S1"), ("srcB", "b.txt", "S2")):
                w.git("checkout", "-q", "-b", br, "main", plain=True)
                w.human_ckpt([f]); w.write_bytes(f, b"one\ntwo\nthree\nai line of %s\n" % sname.encode()); w.ai_ckpt(sname, [f])
                w.git("add", "-A"); w.git("commit", "-q", "-m", "agent commit on " + br)
            w.git("checkout", "-q", "main", plain=True)
            wt = os.path.join(w.root, "wt2")
            w.git("worktree", "add", "-q", "-b", "other", wt, "main", plain=True)
            cmds = [(["cherry-pick", "srcA"], repo, True), (["cherry-pick", "srcB"], wt, True)]
            c.more_points = ",rwscan."       # also park before every scan of the rewrite log (the post-hook looks its own Start event up there)
            probes = [(repo, "a.txt", "ai line of S1"), (wt, "b.txt", "ai line of S2")]
        elif kind == "fetch-commit-wt":
            # `git fetch` in the main work tree brings in notes another clone pushed (the local notes ref is strictly behind the remote's)
            # while `git commit` in a linked work tree writes the note of its new commit: both update refs/notes/ai. The sync points are
            # git-ai's internal git calls themselves (git stand-in), so the windows between two of them can be entered.
            origin = os.path.join(w.root, "origin.git")
            w.ogit("init", "-q", "--bare", "-b", "main", origin, cwd=w.root)
            w.git("remote", "add", "origin", origin, plain=True)
            w.human_ckpt(["a.txt"]); w.write_bytes("a.txt", b"one\ntwo\nthree\nai line of S1\n"); w.ai_ckpt("S1", ["a.txt"])
            w.git("add", "-A"); w.git("commit", "-q", "-m", "c1 (agent)")
            w.git("push", "-q", "origin", "main")
            other = os.path.join(w.root, "otherclone")
            w.git("clone", "-q", origin, other, cwd=w.root)
            w.human_ckpt(["c.txt"], cwd=other); w.write_bytes("c.txt", b"one\ntwo\nthree\nai line of S3\n", other); w.ai_ckpt("S3", ["c.txt"], cwd=other)
            w.git("add", "-A", cwd=other); w.git("commit", "-q", "-m", "c2 (agent, other clone)", cwd=other)
            w.git("push", "-q", "origin", "main", cwd=other)
            c.remote_commit = w.ogit("rev-parse", "HEAD", cwd=other).strip()
            wt = os.path.join(w.root, "wt2")
            w.git("worktree", "add", "-q", "-b", "other", wt, plain=True)
            w.human_ckpt(["b.txt"], cwd=wt); w.write_bytes("b.txt", b"one\ntwo\nthree\nai line of S2\n", wt); w.ai_ckpt("S2", ["b.txt"], cwd=wt)
            w.git("add", "-A", cwd=wt)
            cmds = [(["fetch", "-q", "origin"], repo, True), (["commit", "-q", "-m", "c-other"], wt, True)]
            probes = [(repo, "a.txt", "ai line of S1"), (wt, "b.txt", "ai line of S2")]
        if serial is not None:
            seq, opts = [("serial", list(serial))], []
            for i in serial:
                argv, cwd, git = cmds[i]
                e = w.env({"GIT_AI": "git"} if git else {})
                subprocess.run([BIN] + argv, cwd=cwd, env=e, capture_output=True)
        else:
            for ci, (argv, cwd, git) in enumerate(cmds):
                if kind == "ckpt-commit-leftover" and ci == 1:
                    c.spawn_later(argv, cwd=cwd, git=git)
                else:
                    c.spawn(argv, cwd=cwd, git=git)
            seq, opts, outs = c.run_schedule(choices)
            if outs == "watchdog":
                return dict(inconclusive="watchdog in schedule %r" % (seq,), seq=seq, opts=opts, viol=[])
            for rc, so, se in outs:
                if "panicked at" in se:
                    viol.append(dict(kind="C11/panic", stderr=se))
            if [t for t in w.trace() if t.get("kind") == "sync_timeout"]:
                return dict(inconclusive="sync watchdog released a point", seq=seq, opts=opts, viol=[])
        # stale-base observation: a journal write of a checkpoint process that landed in the working log of a commit that is not HEAD
        heads = {w.ogit("rev-parse", "HEAD", cwd=p).strip() for p in ([repo] + ([wt] if wt else []))}
        pids = {p.pid: i for i, p in enumerate(c.procs)}
        stale = []
        for t in w.trace():
            if t.get("kind") == "checkpoints_write" and t.get("pid") in pids and "/working_logs/" in t.get("file", ""):
                sha = t["file"].split("/working_logs/")[1].split("/")[0]
                # only an agent report can be "stale": a commit process legitimately writes the journal of the HEAD it started from
                if len(sha) == 40 and sha not in heads and cmds[pids[t["pid"]]][0][0] == "checkpoint":
                    stale.append(pids[t["pid"]])
        # ---- every journal parses
        for p in glob.glob(os.path.join(repo, ".git", "**", "checkpoints.jsonl"), recursive=True):
            for ln in open(p):
                if ln.strip():
                    try:
                        json.loads(ln)
                    except ValueError:
                        viol.append(dict(kind="C11/journal-unparsable", path=p.replace(w.root, "")))
        # ---- close and observe
        outcome = {}
        for path in ([repo] + ([wt] if wt else [])):
            if kind == "ckpt-stash" and w.ogit("stash", "list", cwd=path).strip():
                w.git("stash", "pop", "-q", cwd=path)
            if w.ogit("status", "--porcelain", cwd=path).strip():
                w.git("add", "-A", cwd=path); w.git("commit", "-q", "-m", "after", cwd=path)
            head = w.ogit("rev-parse", "HEAD", cwd=path).strip()
            nr = N.NotesReader(w, repo=path)
            m = nr.mapping()
            for cm in w.ogit("rev-list", "HEAD", "--not", "main~0" if False else "--max-count=3", cwd=path).split()[:0]:
                pass
            for cm, ents in m.items():
                try:
                    N.parse_note(nr.blob(ents[0][0]))
                except N.NoteError as e:
                    viol.append(dict(kind="C11/note-unparsable", err=str(e), commit=cm))
        for path, f, text in probes:
            pb = w.ga("blame", "--json", f, cwd=path)
            who = "unknown"
            try:
                j = json.loads(pb.stdout)
                lines = j.get("lines", {})
                content = (w.read_bytes(f, path) or b"").decode().split("\n")
                ln = content.index(text) + 1
                who = "human"
                for rng_, h in lines.items():
                    for part in rng_.split(","):
                        lo, _, hi = part.partition("-")
                        if int(lo) <= ln <= int(hi or lo):
                            who = {session_hash("S1"): "S1", session_hash("S2"): "S2", session_hash("S3"): "S3"}.get(h, h)
            except (ValueError, KeyError):
                pass
            outcome["%s:%s" % (os.path.basename(path), text)] = who
        if getattr(c, "remote_commit", None):
            # the note the other clone wrote for its commit arrived (and stayed)
            outcome["note of the fetched commit"] = "present" if c.remote_commit in N.NotesReader(w, repo=repo).mapping() else "absent"
        return dict(viol=viol, seq=seq, opts=opts, inconclusive=None, outcome=outcome, stale=stale, domains=[cwd for _, cwd, _ in cmds], is_git=[g for _, _, g in cmds])
    finally:
        c.destroy()


_SERIAL = {}


def serial_outcomes(kind):
    if kind not in _SERIAL:
        outs = []
        for order in ((0, 1), (1, 0)):
            r = scenario(kind, [], serial=order)
            outs.append(r.get("outcome"))
        _SERIAL[kind] = outs
    return _SERIAL[kind]


def run_case(case):
    kind = case["kind"]
    ser = serial_outcomes(kind)
    r = scenario(kind, case["choices"])
    viol = list(r["viol"])
    d8 = d45 = d74 = 0
    if r.get("inconclusive") is None and r.get("outcome") not in ser:
        v = dict(kind="C11/not-serializable", pair=kind, outcome=r["outcome"], serial_outcomes=ser, schedule=r["seq"])
        if overlapping_windows(r["seq"], domains=r.get("domains"), is_git=r.get("is_git")):
            d8 = 1          # open finding D8, identified by call site: two journal read..consume windows overlap
        elif r.get("stale"):
            d45 = 1         # open finding D45: a checkpoint process resolved its base commit before a commit landed and wrote to the stale log
        elif report_straddles_git_command(r["seq"], r.get("is_git") or []):
            d74 = 1         # open finding D74: the report read its file list before a log-rewriting git command ran and appended after it
        else:
            viol.append(v)
    return dict(index=case["index"], case=case, viol=viol, d74=d74,
                stats=dict(schedules=1, d8_instances=d8, d45_instances=d45, d74_instances=d74, serializable=int(r.get("outcome") in ser),
                           sync_points_released=len([x for x in (r.get("seq") or []) if x[1] != "exit"])),
                sig="%s|%s" % (kind, r.get("seq")), log=[[kind]] + [list(x) for x in (r.get("seq") or [])], nontrivial=bool(r.get("seq")),
                inconclusive=r.get("inconclusive"), opts=r.get("opts"), d8=d8, d45=d45,
                sample=dict(pair=kind, schedule=r.get("seq"), outcome=r.get("outcome"), serial=ser))


def stress(n=12):
    """Free-running: n parallel checkpoints on n files, no sync points."""
    w = World(name="C11s", mode="wrapper")
    try:
        files = ["f%d.txt" % i for i in range(n)]
        for f in files:
            w.write_bytes(f, b"one\ntwo\n")
        w.git("add", "-A"); w.git("commit", "-q", "-m", "init")
        for f in files:
            w.human_ckpt([f])
        procs = []
        for i, f in enumerate(files):
            w.write_bytes(f, b"one\ntwo\nai line\n")
            procs.append(subprocess.Popen([BIN, "checkpoint", "agent-v1", "--hook-input", ai_payload(w, w.repo, "P%d" % i, f)], cwd=w.repo, env=w.env(), stdout=subprocess.PIPE, stderr=subprocess.PIPE))
        for p in procs:
            p.wait()
        recs = set()
        for p in glob.glob(os.path.join(w.repo, ".git", "ai", "working_logs", "*", "checkpoints.jsonl")):
            for ln in open(p):
                try:
                    j = json.loads(ln)
                    if j.get("agent_id"):
                        recs.add(j["agent_id"]["id"])
                except ValueError:
                    return n, -1
        return n, len(recs)
    finally:
        w.destroy()


def enumerate_kind(kind, limit, seed, start_index):
    """Stateless DFS over schedules: run with a choice prefix, read the option counts, advance like an odometer."""
    results = []
    choices = []
    idx = start_index
    while len(results) < limit:
        r = run_case(dict(kind=kind, choices=list(choices), index=idx, seed=seed)); idx += 1
        results.append(r)
        opts = r.get("opts") or []
        # next schedule: increment the last position that still has an untried option
        full = [choices[i] if i < len(choices) else 0 for i in range(len(opts))]
        k = len(opts) - 1
        while k >= 0 and full[k] + 1 >= opts[k]:
            k -= 1
        if k < 0:
            return results, True
        choices = full[:k] + [full[k] + 1]
    return results, False


def main(tier, seed, replay=None):
    rep = R.Report("C11", tier, seed, "exploration", RULE,
                   ["interleavings finer than the sync points (inside git, inside one fs::write) are not controlled",
                    "the open finding D8 (unlocked read-modify-write of checkpoints.jsonl) is identified by call site: lost reports whose schedule has overlapping append windows are counted as instances, anything else is reported"])
    if replay:
        case = json.load(open(replay))["case"]
        rep.add_results([run_case(case)])
        return rep.finish(min_nontrivial=0)
    witnesses.replay_for(rep, "C11")
    kinds = ["ckpt-ckpt-diff", "ckpt-ckpt-same", "ckpt-commit", "ckpt-commit-leftover", "commit-commit-wt", "ckpt-stash", "ckpt-amend", "ckpt-reset", "commit-ckpt-wt", "cherry-cherry-wt", "fetch-commit-wt"] + (["commit-rebase-wt"] if tier == "thorough" else [])
    if os.environ.get("VERIF_C11_KINDS"):
        kinds = os.environ["VERIF_C11_KINDS"].split(",")
    limit = 6 if tier == "quick" else 600
    nrand = 14 if tier == "quick" else 60
    import concurrent.futures as cf
    import random
    exhaustive = {}

    def both(k, base):
        # seeded random schedules first (spread over the whole space), then the depth-first enumeration (exhaustive when it ends in budget)
        rng = random.Random("%s:C11:%s" % (seed, k))
        res = [run_case(dict(kind=k, choices=[rng.randrange(2) for _ in range(40)], index=base + 5000 + i, seed=seed)) for i in range(nrand)]
        r2, done = enumerate_kind(k, limit, seed, base)
        return res + r2, done

    with cf.ThreadPoolExecutor(len(kinds)) as ex:
        futs = {k: ex.submit(both, k, i * 10000) for i, k in enumerate(kinds)}
        for k, f in futs.items():
            res, done = f.result()
            exhaustive[k] = dict(schedules=len(res), exhaustive=done, serializable=sum(r['stats']['serializable'] for r in res), d8_instances=sum(r.get("d8", 0) for r in res), d45_instances=sum(r.get("d45", 0) for r in res), d74_instances=sum(r.get("d74", 0) for r in res), serial_outcomes=_SERIAL.get(k))
            rep.add_results(res)
    n, kept = stress(8 if tier == "quick" else 16)
    rep.counters["stress_parallel_checkpoints"] = n
    rep.counters["stress_records_kept"] = kept
    rep.extra["per_pair"] = exhaustive
    rep.extra["exhaustive"] = all(v["exhaustive"] for v in exhaustive.values())
    return rep.finish()
