"""C16 — the attribution tracker is total, bounded and conservative (in-process harness, seeded generators)."""
import json

from .. import runner as R
from . import inproc, witnesses

RULE = ("in-process calls of update_attributions / attribute_unattributed_ranges / attributions_to_line_attributions / "
        "line_attributions_to_attributions on (2/3) structured pairs built from a known edit script over unique-token lines (0-400 lines; "
        "identical text, insertions, deletions, replacements, whitespace-only reformats incl. CRLF<->LF, block moves, intra-line token "
        "insertion; hostile prefixes, multibyte / combining text, very long lines, no final newline) with ground-truth author per line, and "
        "(1/3) arbitrary UTF-8 pairs with arbitrary prior attribution sets (overlapping, unsorted, zero-length, out of range; on character "
        "boundaries); oracle: no panic / error, ranges inside the new text on char boundaries, unchanged lines keep their author, new non-blank "
        "lines belong to the reporting author, identical text and whitespace-only reformats change no line's author, moved blocks keep their "
        "author or take the mover, line->char->line returns the same AI lines. distinct = (edit-script shape, author, eol, size bucket) signatures")


def main(tier, seed, replay=None):
    rep = R.Report("C16", tier, seed, "exploration", RULE,
                   ["ground truth by construction of the edit script; block-move expectation accepts both outcomes the tracker documents",
                    "a Miri shard of the same generator runs in the thorough tier (narrow contribution: the modules contain no unsafe)"])
    flags = sorted(R.trigger_off_flags("C16"))
    if replay:
        j = json.load(open(replay))
        pr = j["payload"]["probe"]
        r = inproc.shard(pr[0], pr[1], pr[2], pr[3:])
        for v in (r.get("violations") or [])[:3]:
            rep.direct_violation(v.get("kind"), dict(probe=pr, violation=v))
        rep.evaluations = r.get("cases", 1)
        return rep.finish(min_nontrivial=0)
    witnesses.replay_for(rep, "C16")
    per = 4000 if tier == "quick" else 20000
    res, distinct = inproc.run_shards(rep, "c16", seed, per, ["60"] + flags, R.budget(tier, 35, 240), "C16")
    rep.sigs = set(range(distinct))
    rep.extra["trigger_flags_off"] = flags
    if tier == "thorough":
        miri_shard(rep, "c16", seed, 150, ["12"] + flags + ["tracker_long_lines"])
    return rep.finish()


def miri_shard(rep, mode, seed, n, extra, procs=8):
    """Small shards of the same generator under Miri (arithmetic overflow / out-of-bounds / non-boundary slicing become hard failures);
    `procs` interpreter processes with different seeds run side by side (one Miri run is single-threaded)."""
    import os, subprocess, time
    from concurrent.futures import ThreadPoolExecutor
    hdir = os.path.join(R.W.BUILD, "harness")
    env = dict(os.environ, CARGO_TARGET_DIR=os.path.join(R.W.BUILD, "miri-target"), GIT_AI_DEBUG="0",
               MIRIFLAGS="-Zmiri-disable-isolation -Zmiri-ignore-leaks")
    t = time.time()
    # build once (the first `miri run` compiles the crate for the interpreter), then fan out
    def one(i):
        try:
            return subprocess.run(["cargo", "+nightly", "miri", "run", "--offline", "--", mode, str(seed * 100 + i), str(n if i else 2)] + list(extra), cwd=hdir, env=env,
                                  stdout=subprocess.PIPE, stderr=subprocess.PIPE, timeout=1200)
        except subprocess.TimeoutExpired:
            return None
    first = one(0)
    with ThreadPoolExecutor(procs) as ex:
        runs = [first] + list(ex.map(one, range(1, procs + 1)))
    info = dict(cmd="cargo +nightly miri run -- %s <seed> %s %s" % (mode, n, " ".join(extra)), processes=len(runs), wall_s=round(time.time() - t, 1), cases=0)
    rep.extra["miri"] = info
    for p in runs:
        if p is None:
            rep.inconclusive.append(dict(case="miri shard", why="timeout"))
            continue
        out = p.stdout.decode("utf-8", "replace").strip().split("\n")[-1] if p.stdout else ""
        if p.returncode != 0:
            err = p.stderr.decode("utf-8", "replace")
            if "Undefined Behavior" in err or ("error: unsupported operation" not in err and "panicked" in err):
                rep.direct_violation("%s/miri" % rep.prop, dict(stderr=err[-1500:]))
            else:
                rep.inconclusive.append(dict(case="miri shard", why=err[-400:]))
            continue
        try:
            j = json.loads(out)
            info["cases"] += j.get("cases") or 0
            for v in j.get("violations") or []:
                rep.direct_violation(v.get("kind"), dict(miri=True, violation=v))
        except ValueError:
            rep.inconclusive.append(dict(case="miri shard", why="unparsable output"))
    rep.counters["miri_cases"] += info["cases"]
