"""Shared driver for the in-process (harness) checks: shards the seeded probe over the cores."""
import json
import os
import subprocess
import time
from concurrent.futures import ThreadPoolExecutor

from .. import runner as R


def shard(mode, seed, n, extra):
    env = dict(os.environ, GIT_AI_DEBUG="0", HOME=os.environ.get("VERIF_PROBE_HOME", "/nonexistent-home"))
    t = time.time()
    try:
        p = subprocess.run([R.PROBE, mode, str(seed), str(n)] + list(extra), stdout=subprocess.PIPE, stderr=subprocess.PIPE, timeout=3600, env=env)
    except subprocess.TimeoutExpired:
        return dict(inconclusive="probe timeout", seed=seed)
    if p.returncode != 0:
        # an abort that escapes catch_unwind (alloc failure, stack overflow, double panic) kills the probe itself
        return dict(crash=dict(rc=p.returncode, stderr=p.stderr.decode("utf-8", "replace")[-800:]), seed=seed)
    try:
        j = json.loads(p.stdout.decode("utf-8", "replace").strip().split("\n")[-1])
    except ValueError:
        return dict(inconclusive="probe output unparsable: %r" % p.stdout[-200:], seed=seed)
    j["seed"] = seed
    j["wall"] = time.time() - t
    return j


def run_shards(rep, mode, seed, per_shard, extra, budget_s, prop, procs=16):
    """Run shards with seeds seed*1000+i until the budget is used; fold results into rep."""
    t0 = time.time()
    i = 0
    results = []
    with ThreadPoolExecutor(procs) as ex:
        pending = []
        while True:
            while len(pending) < procs and (time.time() - t0 < budget_s or i < procs):
                pending.append(ex.submit(shard, mode, seed * 1000 + i, per_shard, extra)); i += 1
            if not pending:
                break
            done = pending.pop(0).result()
            results.append(done)
            if time.time() - t0 >= budget_s and len(results) >= min(i, procs):
                for f in pending:
                    results.append(f.result())
                break
    distinct = 0
    for r in results:
        if r.get("inconclusive"):
            rep.inconclusive.append(dict(case="shard seed %s" % r.get("seed"), why=r["inconclusive"]))
            continue
        if r.get("crash"):
            rep.direct_violation(prop + "/probe-aborted", dict(mode=mode, seed=r["seed"], n=per_shard, extra=list(extra), crash=r["crash"]))
            continue
        rep.evaluations += r.get("cases", 0)
        distinct = max(distinct, r.get("distinct", 0))
        for k, v in (r.get("counters") or {}).items():
            rep.counters[k] += v
        for s in (r.get("samples") or [])[:1]:
            if len(rep.samples) < 3:
                rep.samples.append(s)
        for v in r.get("violations") or []:
            if len(rep.violations) < 8:
                rep.direct_violation(v.get("kind", prop + "/violation"), dict(probe=[mode, r["seed"], per_shard] + list(extra), violation=v))
            else:
                rep.viol_kinds[v.get("kind")] += 1
    rep.counters["shards"] += len(results)
    return results, distinct
