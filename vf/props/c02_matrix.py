"""C02 — bounded-exhaustive part: every (rewrite operation x position of the upstream change x position of the agent lines) cell.

Each cell is one small deterministic history: agent lines are written at a chosen place of f.txt (top / middle / bottom / very last line),
the base branch changes somewhere else (nowhere / another file / above / below / above and below the agent lines in the same file), and one
history-rewriting operation carries the agent lines over.  Afterwards everything is committed and every agent line must still be blamed
on its session (and nothing else on any session).  Failing cells that a known finding lists (`cells2` patterns in known_findings.json)
are reported as KNOWN-FINDING, any other failing cell is a VIOLATION.  Cells in which git itself stops on a conflict are counted as not
applicable (conflicts are the random generator's business)."""
import fnmatch
import os

from ..witness.common import Script
from ..ops import Hist

F, G = "f.txt", "g.txt"

OPS_WITH_UPSTREAM = ["switch-m-back", "switch-m-behind", "switch-m-initial", "checkout-m-initial", "rebase-plain", "rebase-onto", "rebase-i-reorder", "rebase-i-squash", "rebase-i-fixup", "rebase-i-reword", "rebase-i-drop-other",
                     "cherry-one", "cherry-range", "squash-merge", "merge-noff", "stash-pop", "stash-apply", "switch-m", "pull-rebase-autostash",
                     "ci-squash", "ci-rebase", "squash-authorship"]
OPS_NO_UPSTREAM = ["amend-agent", "amend-message", "reset-soft", "reset-mixed", "reset-soft-2", "switch-carry", "checkout-b-carry", "stash-pop-same", "commit-dry-run", "rebase-abort",
                   "stash-pop-refused", "stash-pop-after-partial"]
UPSTREAM = ["none", "other", "above", "below", "both"]
POSITIONS = ["top", "middle", "bottom", "last"]


class S(Script, Hist):
    pass


def cells():
    out = []
    for op in OPS_WITH_UPSTREAM:
        for u in UPSTREAM:
            for p in POSITIONS:
                out.append("%s|%s|%s" % (op, u, p))
    for op in OPS_NO_UPSTREAM:
        for p in POSITIONS:
            out.append("%s|none|%s" % (op, p))
    return out


def insert_at(lines, pos_name, new):
    n = len(lines)
    i = {"top": 2, "middle": n // 2, "bottom": n - 2, "last": n}[pos_name]
    return lines[:i] + new + lines[i:]


def upstream_edit(s, u):
    """The base branch moves on."""
    if u == "none":
        return
    if u == "other":
        s.human_write("up.txt", [s.line("human"), s.line("human")])
    else:
        cur = s.read(F)
        if u in ("above", "both"):
            cur = [s.line("human"), s.line("human")] + cur
        if u in ("below", "both"):
            # two lines above the end, so that an agent line appended at the very end does not collide textually
            cur = cur[:-1] + [s.line("human"), s.line("human")] + cur[-1:]
        s.human_write(F, cur)
    s.commit_all("upstream (%s)" % u)


def run_cell(case):
    cell = case["cell"]
    op, u, pos = cell.split("|")
    s = S("m2", files=2)
    applicable = True
    try:
        f0 = [s.line("human") for _ in range(10)]
        g0 = [s.line("human") for _ in range(5)]
        s.human_write(F, f0); s.human_write(G, g0); s.commit_all("init")

        def ai1(repo=None):
            s.ai_write("S1", F, insert_at(s.read(F), pos, [s.line("S1"), s.line("S1")]))

        def ai2():
            s.ai_write("S2", G, s.read(G)[:2] + [s.line("S2")] + s.read(G)[2:])

        def conflict_guard(cmd):
            nonlocal applicable
            if s.in_progress() or s.unmerged():
                applicable = False
                s.g(cmd, "--abort")
                if s.in_progress():
                    s.g("reset", "-q", "--hard")

        if op.startswith("rebase") and op != "rebase-abort":
            s.g("checkout", "-q", "-b", "feat")
            if op == "rebase-onto":
                s.human_write(G, g0 + [s.line("human")]); s.commit_all("feat: a person's commit that stays behind")
            ai1(); s.commit_all("feat: agent lines in f")
            if op in ("rebase-i-drop-other",):
                s.human_write(G, g0 + [s.line("human")]); s.commit_all("feat: a person's commit (dropped)")
            else:
                ai2(); s.commit_all("feat: second agent in g")
            s.g("checkout", "-q", "main")
            upstream_edit(s, u)
            s.g("checkout", "-q", "feat")
            if op == "rebase-plain":
                s.g("rebase", "main")
            elif op == "rebase-onto":
                s.g("rebase", "--onto", "main", "feat~2", "feat")
            else:
                kind = op[len("rebase-i-"):]
                if kind == "drop-other":
                    seq = os.path.join(s.w.root, "seq.sh")
                    with open(seq, "w") as fh:
                        fh.write("#!/bin/sh\nawk 'BEGIN{c=0}/^pick/{c++; if(c==2){sub(/^pick/,\"drop\")}}{print}' \"$1\" > \"$1.new\" && mv \"$1.new\" \"$1\"\n")
                    os.chmod(seq, 0o755)
                else:
                    seq = s.make_seq_editor(kind)
                s.g("rebase", "-i", "main", env={"GIT_SEQUENCE_EDITOR": seq})
            conflict_guard("rebase")
            if applicable:
                s.g("checkout", "-q", "main"); s.g("merge", "-q", "--ff-only", "feat")
            else:
                s.g("checkout", "-q", "-f", "main")
        elif op in ("cherry-one", "cherry-range"):
            s.g("checkout", "-q", "-b", "src")
            ai1(); s.commit_all("src: agent lines in f")
            if op == "cherry-range":
                ai2(); s.commit_all("src: second agent in g")
            s.g("checkout", "-q", "main")
            upstream_edit(s, u)
            s.g("cherry-pick", "src" if op == "cherry-one" else "src~2..src")
            conflict_guard("cherry-pick")
        elif op in ("squash-merge", "merge-noff"):
            s.g("checkout", "-q", "-b", "br")
            ai1(); s.commit_all("br: agent lines in f")
            ai2(); s.commit_all("br: second agent in g")
            s.g("checkout", "-q", "main")
            upstream_edit(s, u)
            if op == "squash-merge":
                s.g("merge", "--squash", "br")
                if s.unmerged():
                    applicable = False
                    s.g("reset", "-q", "--hard")
                else:
                    s.g("commit", "-q", "-m", "squashed")
            else:
                s.g("merge", "-q", "--no-ff", "--no-edit", "br")
                conflict_guard("merge")
        elif op in ("stash-pop", "stash-apply", "stash-pop-same"):
            ai1()
            s.g("stash", "push", "-q")
            if op != "stash-pop-same":
                upstream_edit(s, u)
            s.g("stash", "pop" if op != "stash-apply" else "apply", "-q")
            if s.unmerged():
                applicable = False
                s.g("reset", "-q", "--hard")
        elif op in ("switch-carry", "checkout-b-carry"):
            ai1()
            if op == "switch-carry":
                s.g("branch", "other"); s.g("switch", "-q", "other")
            else:
                s.g("checkout", "-q", "-b", "other")
        elif op == "switch-m":
            s.g("checkout", "-q", "-b", "other")
            upstream_edit(s, u)
            s.g("checkout", "-q", "main")
            ai1()
            p = s.g("switch", "-q", "-m", "other")
            if s.unmerged() or p.rc != 0:
                applicable = False
                s.g("reset", "-q", "--hard")
        elif op in ("switch-m-initial", "checkout-m-initial"):
            # the carried agent lines are pending only as INITIAL claims (left behind by a commit of another file): the working log of
            # HEAD holds no checkpoint at all when `switch -m` / `checkout -m` merges the work onto the other branch
            s.g("checkout", "-q", "-b", "other")
            upstream_edit(s, u)
            s.g("checkout", "-q", "main")
            ai1(); ai2()
            s.g("commit", "-q", "-m", "only g is committed", "--", G)
            p = s.g(*(["switch", "-q", "-m"] if op == "switch-m-initial" else ["checkout", "-q", "-m"]), "other")
            if s.unmerged() or p.rc != 0:
                applicable = False
                s.g("reset", "-q", "--hard")
        elif op == "switch-m-behind":
            # the branch switched to is BEHIND: it lacks the last commit (which changed f above / below / elsewhere)
            s.g("branch", "other")
            upstream_edit(s, u)
            ai1()
            p = s.g("switch", "-q", "-m", "other")
            if s.unmerged() or p.rc != 0:
                applicable = False
                s.g("reset", "-q", "--hard")
        elif op == "switch-m-back":
            # `switch -m` to a branch at another commit, commit there, then come back with a plain switch carrying new agent work
            s.g("checkout", "-q", "-b", "other")
            upstream_edit(s, u if u != "none" else "other")
            s.g("checkout", "-q", "main")
            ai1()
            p = s.g("switch", "-q", "-m", "other")
            if s.unmerged() or p.rc != 0:
                applicable = False
                s.g("reset", "-q", "--hard")
            else:
                s.commit_all("agent lines committed on the other branch")
                s.check_blame_tip("matrix-other " + cell, rule="C02")
                ai2()
                s.g("switch", "-q", "main")
        elif op == "stash-pop-refused":
            ai1()
            s.g("stash", "push", "-q")
            upstream_edit(s, "other")
            s.human_write(F, insert_at(s.read(F), pos, [s.line("human"), s.line("human")]), ckpt=True)
            before = s.pending_digest()
            p = s.g("stash", "pop", "-q")
            if p.rc == 0:
                applicable = False
            else:
                if s.pending_digest() != before:
                    s.violation("C02/pending-changed-by-noop", op="stash pop refused (local changes would be overwritten)", pending=s.pending_effective())
                s.g("stash", "drop", "-q")
        elif op == "stash-pop-after-partial":
            ai1()
            s.g("stash", "push", "-q")
            ai2()
            s.ai_write("S2", "h.txt", [s.line("S2"), s.line("S2")])
            s.g("add", "--", G); s.g("commit", "-q", "-m", "only g: the agent's new file stays uncommitted")
            s.g("stash", "pop", "-q")
            if s.unmerged():
                applicable = False
                s.g("reset", "-q", "--hard")
        elif op == "pull-rebase-autostash":
            origin = s.ensure_origin()
            s.w.git("push", "-q", "origin", "+refs/heads/main:refs/heads/main", plain=True, tick=False)
            other = os.path.join(s.w.root, "other")
            s.w.git("clone", "-q", "-b", "main", origin, other, plain=True, tick=False, cwd=s.w.root)
            if u != "none":
                if u == "other":
                    s.write("up.txt", [s.line("human"), s.line("human")], repo=other)
                else:
                    cur = s.read(F, other)
                    if u in ("above", "both"):
                        cur = [s.line("human"), s.line("human")] + cur
                    if u in ("below", "both"):
                        cur = cur[:-1] + [s.line("human"), s.line("human")] + cur[-1:]
                    s.write(F, cur, repo=other)
                s.w.git("add", "-A", plain=True, cwd=other, tick=False)
                s.w.git("commit", "-q", "-m", "upstream", plain=True, cwd=other)
                s.w.git("push", "-q", "origin", "main", plain=True, cwd=other, tick=False)
            ai1()
            p = s.g("pull", "-q", "--rebase", "--autostash", "origin", "main")
            if s.unmerged() or s.in_progress() or p.rc != 0:
                applicable = False
                s.g("rebase", "--abort"); s.g("reset", "-q", "--hard")
        elif op in ("ci-squash", "ci-rebase", "squash-authorship"):
            s.ensure_origin()
            s.g("checkout", "-q", "-b", "pr")
            ai1(); s.commit_all("pr: agent lines in f")
            ai2(); s.commit_all("pr: second agent in g")
            head = s.head()
            s.g("checkout", "-q", "main")
            upstream_edit(s, u)
            base = s.head()
            s.w.git("push", "-q", "origin", "+refs/heads/*:refs/heads/*", "+refs/notes/ai:refs/notes/ai", plain=True, tick=False)
            if op == "ci-rebase":
                s.w.git("checkout", "-q", "-b", "srv", "pr", plain=True)
                p = s.w.git("rebase", "main", plain=True)
                if p.rc != 0 or s.in_progress():
                    applicable = False
                    s.w.git("rebase", "--abort", plain=True, tick=False)
                    s.w.git("checkout", "-q", "-f", "main", plain=True, tick=False)
                else:
                    s.w.git("checkout", "-q", "main", plain=True, tick=False)
                    s.w.git("merge", "-q", "--ff-only", "srv", plain=True, tick=False)
            else:
                s.w.git("merge", "--squash", "pr", plain=True)
                if s.unmerged():
                    applicable = False
                    s.w.git("reset", "-q", "--hard", plain=True, tick=False)
                else:
                    s.w.git("commit", "-q", "-m", "squashed on the server", plain=True)
            if applicable:
                m = s.head()
                s.w.git("push", "-q", "origin", "main", plain=True, tick=False)
                if op == "squash-authorship":
                    p = s.w.ga("squash-authorship", "main", m, head)
                else:
                    p = s.w.ga("ci", "local", "merge", "--merge-commit-sha", m, "--base-ref", "main", "--head-ref", "pr", "--head-sha", head, "--base-sha", base)
                if p.rc != 0:
                    s.violation("C02/ci-rewrite-failed", rc=p.rc, err=p.stderr[-200:])
        elif op == "amend-agent":
            ai1(); s.commit_all("agent lines in f")
            ai2()
            s.g("add", "-A"); s.g("commit", "-q", "--amend", "-m", "amended with a second agent's line")
        elif op == "amend-message":
            ai1(); s.commit_all("agent lines in f")
            s.g("commit", "-q", "--amend", "-m", "only the message changes")
        elif op in ("reset-soft", "reset-mixed"):
            ai1(); s.commit_all("agent lines in f")
            s.g("reset", "-q", "--soft" if op == "reset-soft" else "--mixed", "HEAD~1")
        elif op == "reset-soft-2":
            ai1(); s.commit_all("agent lines in f")
            ai2(); s.commit_all("second agent in g")
            s.g("reset", "-q", "--soft", "HEAD~2")
        elif op == "commit-dry-run":
            ai1()
            before = (s.notes_digest(), s.pending_digest())
            s.g("add", "-A"); s.g("commit", "--dry-run"); s.g("reset", "-q")
            if (s.notes_digest(), s.pending_digest()) != before:
                s.violation("C02/changed-by-noop", op="commit --dry-run")
        elif op == "rebase-abort":
            ai1(); s.commit_all("agent lines in f")
            s.g("checkout", "-q", "-b", "side", "HEAD~1")
            s.human_write(F, insert_at(s.read(F), pos, [s.line("human")])); s.commit_all("side: a person writes at the same place")
            before = s.notes_digest()
            s.g("rebase", "main")
            if s.in_progress():
                s.g("rebase", "--abort")
            if s.notes_digest() != before:
                s.violation("C02/notes-changed-by-noop", op="rebase --abort")
            s.g("checkout", "-q", "main")
        else:
            raise ValueError(op)
        if not applicable:
            r = s.finish()
            r.update(nontrivial=False, sig=None, cell=cell, applicable=False)
            return r
        s.check_notes("matrix " + cell)
        if not s.in_progress():
            s.commit_all("final")
            s.check_notes("matrix-final " + cell)
            s.check_blame_tip("matrix " + cell, rule="C02")
        s.stats["c02_matrix_cells_applicable"] += 1
        r = s.finish()
        r.update(nontrivial=True, sig="matrix:" + cell, cell=cell, applicable=True)
        r["sample"] = dict(cell=cell, steps=s.log[:50])
        return r
    finally:
        s.destroy()


def classify(cell, known_entries):
    for e in known_entries:
        for pat in e.get("cells2", []):
            if fnmatch.fnmatchcase(cell, pat):
                return e
    return None
