"""C18 — the proxy hands git exactly the arguments the user typed."""
import json
import os
import random
import re
import shutil
import subprocess

from .. import runner as R
from ..world import World, REAL_GIT
from . import inproc, witnesses

RULE = ("(a) in-process: 10^5-10^6 argument vectors from a grammar over all git global options (attached / detached / missing values, repeated), "
        "`--`, unknown dash options, meta options, subcommands, flags, pathspecs that look like options, configured aliases: "
        "parse_git_cli_args(v).to_invocation_vec() == v; every DISTINCT vector that is re-emitted differently is executed both ways under "
        "real git in throw-away copies of a scratch repository and must be observably equivalent (exit, stdout, stderr, resulting state) and "
        "involve a top-level help/version option; (b) a sample of vectors is classified by real git itself (GIT_TRACE: `trace: built-in: git X` / "
        "`trace: exec: git-X` / `alias expansion`) and compared with the parsed command and with resolve_alias_impl; (c) CLI level: command lines "
        "run through the proxy with the recording git stand-in installed via config git_path: the proxied argv must equal the user's argv apart "
        "from a `-c core.hooksPath=` prefix. distinct = vector shapes (in-process) + distinct differing vectors + CLI templates")

TRACE_BUILTIN = re.compile(r"trace: (?:built-in: git |exec: git-)(\S+)")
TRACE_RUN = re.compile(r"trace: run_command: git-([A-Za-z0-9_-]+)")
ALIAS = re.compile(r"trace: alias expansion: (\S+) => (.*)")
ALIASES = [("st", "status -s"), ("lg", "log --oneline -3"), ("rec", "st"), ("sh", "!echo from-shell"), ("q", "log -1 --format='%s %an'"), ("loop1", "loop2"), ("loop2", "loop1"),
           # chains in which a non-final link contributes a global option (-p is the one git allows an alias to carry)
           ("lg2", "log --oneline -2"), ("pg", "-p lg2"), ("ppg", "pg -1"), ("pst", "--paginate rec")]


def make_scratch():
    w = World(name="c18", mode="plain")
    for name, val in ALIASES:
        w.git("config", "alias." + name, val, plain=True, tick=False)
    w.write_bytes("a.txt", b"one\ntwo\n")
    w.git("add", "-A", plain=True)
    w.git("commit", "-q", "-m", "init", plain=True)
    w.write_bytes("a.txt", b"one\ntwo\nthree\n")
    return w


def run_git_copy(w, argv):
    """Run real git with argv in a throw-away copy of the scratch repository; returns (rc, stdout, stderr, state digest)."""
    d = w.root + "-copy-%d" % os.getpid()
    shutil.rmtree(d, ignore_errors=True)
    shutil.copytree(w.repo, d, symlinks=True)
    try:
        env = dict(w.env(), GIT_TRACE="0")
        p = subprocess.run([REAL_GIT] + argv, cwd=d, env=env, stdout=subprocess.PIPE, stderr=subprocess.PIPE, timeout=60, stdin=subprocess.DEVNULL)
        st = subprocess.run([REAL_GIT, "status", "--porcelain=v2", "--branch"], cwd=d, env=env, stdout=subprocess.PIPE).stdout
        refs = subprocess.run([REAL_GIT, "for-each-ref"], cwd=d, env=env, stdout=subprocess.PIPE).stdout
        cfg = open(os.path.join(d, ".git", "config")).read() if os.path.exists(os.path.join(d, ".git", "config")) else ""
        return p.returncode, p.stdout.replace(d.encode(), b"<D>"), p.stderr.replace(d.encode(), b"<D>"), (st, refs, cfg)
    finally:
        shutil.rmtree(d, ignore_errors=True)


def git_dispatch(w, argv):
    """What real git itself dispatches for argv (from GIT_TRACE)."""
    env = dict(w.env(), GIT_TRACE="1")
    d = w.root + "-trace-%d" % os.getpid()
    shutil.rmtree(d, ignore_errors=True)
    shutil.copytree(w.repo, d, symlinks=True)
    try:
        p = subprocess.run([REAL_GIT] + argv, cwd=d, env=env, stdout=subprocess.PIPE, stderr=subprocess.PIPE, timeout=60, stdin=subprocess.DEVNULL)
        err = p.stderr.decode("utf-8", "replace")
        cmds = TRACE_BUILTIN.findall(err)
        al = ALIAS.findall(err)
        return cmds, al, err
    finally:
        shutil.rmtree(d, ignore_errors=True)


def main(tier, seed, replay=None):
    rep = R.Report("C18", tier, seed, "exploration", RULE,
                   ["real git 2.39.5 is the oracle for observable equivalence and for command / alias classification (GIT_TRACE)",
                    "Windows quoting is out of scope"])
    flags = sorted(R.trigger_off_flags("C18"))
    witnesses.replay_for(rep, "C18")
    w = make_scratch()
    try:
        per = 5000 if tier == "quick" else 25000
        res, distinct = inproc.run_shards(rep, "c18", seed, per, [w.repo, "300"] + flags, R.budget(tier, 20, 200), "C18")
        sigs = set(range(distinct))
        differing = {}
        classified = []
        aliases = []
        for r in res:
            for d in r.get("differing") or []:
                differing.setdefault(json.dumps(d["argv"]), d)
            classified.extend(r.get("classified") or [])
            aliases.extend(r.get("aliases") or [])
        rng = random.Random("%s:C18" % seed)
        # (a) every distinct differing vector: must involve help/version at top level and be observably equivalent under real git
        todo = list(differing.values())
        rng.shuffle(todo)
        limit = 250 if tier == "quick" else 2500
        for d in todo[:limit]:
            v, inv = d["argv"], d["reemitted"]
            if "tmpl:--html-path status" in flags and any(x in ("--html-path", "--man-path", "--info-path") for x in v):
                rep.counters["differing_skipped_known_D9"] += 1
                continue
            has_meta = any(x in ("--help", "-h", "--version", "-v") for x in v[:v.index(d["command"])] ) if d.get("command") in v else d.get("meta")
            if not d.get("wf"):
                METAS = ("--version", "-v", "--help", "-h", "--html-path", "--man-path", "--info-path", "--exec-path")
                if not any(x in METAS or x.startswith("--exec-path") or x.startswith("--list-cmds") for x in v) and sorted(inv) != sorted(v):
                    # ill-formed, but no help / version / path query anywhere in it: whatever git makes of the line, it has to be
                    # handed the same words (an empty-string argument is a word too)
                    rep.direct_violation("C18/ill-formed-vector-words-changed", dict(argv=v, reemitted=inv))
                    continue
                rep.counters["malformed_vectors_not_judged"] += 1
                continue   # ill-formed command lines (missing values, unknown options, several meta options): git fails either way
            if not d.get("meta"):
                # no top-level help/version option: the vector must be handed over verbatim
                rep.direct_violation("C18/reemitted-differently-without-help-or-version", dict(argv=v, reemitted=inv))
                continue
            if "version_with_trailing_args" in flags and any(x in ("--version", "-v") for x in v) and len(inv) < len(v):
                rep.counters["differing_skipped_known_D44"] += 1
                continue
            a = run_git_copy(w, v)
            b = run_git_copy(w, inv)
            rep.counters["differing_vectors_executed"] += 1
            sigs.add("diff:" + json.dumps(v))
            if (a[0], a[1], a[3]) != (b[0], b[1], b[3]):
                what = [n for n, x, y in (("exit", a[0], b[0]), ("stdout", a[1], b[1]), ("state", a[3], b[3])) if x != y]
                rep.direct_violation("C18/normalisation-not-equivalent", dict(argv=v, reemitted=inv, differs=what, user=[a[0], a[1][-200:].decode("utf-8", "replace"), a[2][-200:].decode("utf-8", "replace")],
                                                                         proxy=[b[0], b[1][-200:].decode("utf-8", "replace"), b[2][-200:].decode("utf-8", "replace")]))
                if len(rep.violations) >= 6:
                    break
        # (b) command classification against git's own dispatch
        rng.shuffle(classified)
        for c in [x for x in classified if x.get("wf") and not x.get("meta") and not x.get("is_help")][:(150 if tier == "quick" else 1500)]:
            cmds, al, err = git_dispatch(w, c["argv"])
            rep.counters["classification_compared"] += 1
            if not cmds or al:
                continue    # git dispatched nothing (usage error) / alias (compared below)
            if c["command"] != cmds[0]:
                rep.direct_violation("C18/command-misclassified", dict(argv=c["argv"], parsed_command=c["command"], git_dispatched=cmds[:3]))
        rng.shuffle(aliases)
        for a in [x for x in aliases if x.get("wf") and not x.get("meta")][:(100 if tier == "quick" else 800)]:
            if any(t in ("--help", "-h", "--version") for t in a["argv"]):
                continue
            cmds, al, err = git_dispatch(w, a["argv"])
            rep.counters["alias_compared"] += 1
            if not al or any(rhs.startswith("!") for _, rhs in al) or "loop" in err or "recursive" in err:
                continue   # shell alias / alias loop: git-ai must bail out, any answer but a wrong command is fine
            expected = [t for t in al[-1][1].split() if not t.startswith("-")][0]
            if a["resolved_command"] and a["resolved_command"] != expected:
                rep.direct_violation("C18/alias-resolution-differs", dict(argv=a["argv"], git_ai=a["resolved_command"], git_final=expected, expansions=al))
                continue
            # the whole expansion. Command and arguments: git's own final dispatch line (`trace: built-in: git <cmd> <args>`). Global
            # options: the user's, followed by those each alias of the chain contributes (git's `alias expansion` trace line is not
            # usable for values that start with an option: it prints the shifted vector, e.g. `pg => lg2 lg2`)
            import shlex
            m = re.search(r"trace: built-in: git (.*)", err)
            if not m or a.get("resolved_argv") is None or a["resolved_command"] not in a["resolved_argv"]:
                continue
            try:
                git_final = shlex.split(m.group(1))
            except ValueError:
                continue
            i = a["resolved_argv"].index(a["resolved_command"])
            got_globals, got_cmd = a["resolved_argv"][:i], a["resolved_argv"][i:]
            cfg = dict(ALIASES)
            first = al[0][0]
            exp_globals = list(a["argv"][:a["argv"].index(first)]) if first in a["argv"] else None
            for lhs, _ in al:
                for t in shlex.split(cfg.get(lhs, "")):
                    if not t.startswith("-"):
                        break
                    if exp_globals is not None:
                        exp_globals.append(t)
            rep.counters["alias_full_expansions_compared"] += 1
            if got_cmd != git_final or (exp_globals is not None and got_globals != exp_globals):
                rep.direct_violation("C18/alias-expansion-differs", dict(argv=a["argv"], git_ai=a["resolved_argv"], git_command_line=git_final, expected_global_options=exp_globals, expansions=al))
        # (b2) the alias tokenizer against git's own split of the same value (the proxy hands git the expansion, finding D41, so a
        # tokenization difference changes what git runs)
        import shlex
        toks = []
        for r in res:
            toks.extend(r.get("alias_tokens") or [])
        rng.shuffle(toks)
        seen_vals = set()
        for a in toks:
            if a["value"] in seen_vals or len(seen_vals) >= (120 if tier == "quick" else 1500):
                continue
            seen_vals.add(a["value"])
            env = dict(w.env(), GIT_TRACE="1")
            p = subprocess.run([REAL_GIT, "-c", "alias.zz=" + a["value"], "zz"], cwd=w.repo, env=env, stdout=subprocess.PIPE, stderr=subprocess.PIPE, timeout=60, stdin=subprocess.DEVNULL)
            err = p.stderr.decode("utf-8", "replace")
            m = re.search(r"trace: alias expansion: zz => (.*)", err)
            rep.counters["alias_tokenizations_compared"] += 1
            if m:
                try:
                    expected = shlex.split(m.group(1))
                except ValueError:
                    continue
                if a["tokens"] != expected:
                    rep.direct_violation("C18/alias-tokens-differ", dict(value=a["value"], git_ai=a["tokens"], git=expected))
            elif "bad alias" in err or "unclosed quote" in err or "cmdline ends with" in err:
                if a["tokens"] is not None:
                    rep.direct_violation("C18/alias-tokens-differ", dict(value=a["value"], git_ai=a["tokens"], git="rejected: " + err.strip()[-120:]))
            if len(rep.violations) >= 6:
                break
        # (c) CLI level through the recording stand-in
        from ..twin import Twin
        t = Twin("C18cli", seed, 0, hooks_kind="none")
        try:
            for name, val in ALIASES:
                t.A.git("config", "alias." + name, val, plain=True, tick=False)
            t.write_both("a.txt", "x\n")
            t.A.git("add", "-A"); t.A.git("commit", "-q", "-m", "init")
            t.argv_problems = []
            pool = [v["argv"] for v in classified[:400]] + [d["argv"] for d in todo[:100]]
            rng.shuffle(pool)
            n = 0
            for v in pool[:(150 if tier == "quick" else 1200)]:
                if any(x in v for x in ("commit", "checkout", "stash", "add", "branch")):
                    continue   # keep the scratch repository stable; these are covered by the C06 twin runs
                try:
                    off = os.path.getsize(t.A.shim_log)
                except OSError:
                    off = 0
                t.A.git(*v)
                # the documented normalisation of top-level help/version is allowed here and was proven equivalent in (a)
                if any(x in ("--help", "-h", "--version", "-v") for x in v):
                    continue
                if "proxied_alias_expansion" in flags and any(x in [n for n, _ in ALIASES] for x in v):
                    continue   # finding D41: for a configured alias the proxy hands git the expansion
                if "tmpl:--" in flags and "--" in v[:v.index(next((x for x in v if not x.startswith("-")), v[-1])) + 1 if v else 0]:
                    continue   # finding D42: a top-level `--` is swallowed
                if "tmpl:--html-path status" in flags and any(x in ("--html-path", "--man-path", "--info-path") for x in v):
                    continue
                t.check_argv(list(v), off)
                n += 1
            rep.counters["cli_argv_compared"] += n
            for pr in t.argv_problems[:4]:
                rep.direct_violation("C18/proxied-argv-differs", pr)
            sigs.add("cli:%d" % n)
        finally:
            t.destroy()
        rep.sigs = sigs
        rep.samples = [dict(differing=todo[:3]), dict(classified=classified[:3]), dict(aliases=aliases[:3])]
        rep.extra["distinct_differing_vectors"] = len(differing)
        rep.extra["trigger_flags_off"] = flags
        return rep.finish()
    finally:
        w.destroy()
