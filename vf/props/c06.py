"""C06 — running git through git-ai is indistinguishable from running git (twin repositories, real git as oracle)."""
import os
import random

from ..twin import Twin
from .. import runner as R

RULE = ("random command sequences (8-30 steps) from a grammar of ~90 git command-line templates over the evolving state — porcelain and plumbing, "
        "valid and invalid (unknown flags, missing refs, bad pathspecs), global options (-C, -c k=v, --git-dir/--work-tree, --no-pager, "
        "--exec-path, --html-path ...), aliases (plain, recursive, quoted, shell), `--` separators, scripted editors — interleaved with file "
        "edits and agent checkpoints, executed through the git-ai proxy in one world and through plain git in an identical twin (logical "
        "clock => identical object ids); user hooks of every kind that log argv+stdin (in .git/hooks, via core.hooksPath, or none), optionally "
        "with git-ai's own repository hooks installed too. After EVERY command: exit status, stdout bytes (path-normalised) and repository "
        "state (HEAD, all refs outside refs/notes/ai*, index, status v2, stash, work-tree bytes, in-progress markers, .git/config, user-hook "
        "log, set of paths under .git outside ai/ objects/ logs/) must be equal. non-trivial = a command that changed state or printed "
        "output and was compared; distinct = distinct command templates x hook kind")

TEMPLATES = None


def templates(t, step):
    rng = t.rng
    f = rng.choice(t.files)
    t.cur_f = f
    br = rng.choice(t.branches)
    m = "m%d" % step
    return [
        ("add", "-A"), ("add", f), ("add", "nosuch"), ("add", "-u"), ("add", "--", f),
        ("commit", "-q", "-m", m), ("commit", "-q", "-a", "-m", m), ("commit", "-m", m), ("commit", "--amend", "-q", "-m", "am"),
        ("commit", "--amend", "--no-edit"), ("commit", "--dry-run"), ("commit", "-q", "-m", "x", "--", f), ("commit", "--nonsense"),
        ("commit", "--allow-empty", "-q", "-m", m), ("commit", "-q", "-F", "-"),
        ("status",), ("status", "-s"), ("status", "--porcelain=v2", "--branch"), ("log", "--oneline", "--all"), ("log", "-3", "--stat"),
        ("log", "--format=%H %s", "-5"), ("diff",), ("diff", "--cached", "--stat"), ("diff", "HEAD~1", "--", f), ("show", "--stat"),
        ("show", "HEAD:" + f), ("branch", "br%d" % step), ("branch", "-a"), ("branch", "-D", br), ("branch", "-m", br, br + "r"),
        ("checkout", "-q", br), ("checkout", "-q", "-b", "nb%d" % step), ("switch", "-q", br), ("switch", "-q", "-c", "sc%d" % step),
        ("checkout", "--", f), ("checkout", "-f", br), ("checkout", "-q", "--detach"), ("checkout", "nosuchbranch"),
        ("reset", "-q", "--soft", "HEAD~1"), ("reset", "-q", "HEAD~1"), ("reset", "-q", "--hard", "HEAD"), ("reset", "-q", "--", f),
        ("reset", "--hard", "nosuchref"), ("restore", f), ("restore", "--staged", f), ("restore", "--source", "HEAD~1", "--", f),
        ("stash",), ("stash", "pop"), ("stash", "list"), ("stash", "drop"), ("stash", "push", "-u", "-m", "s"), ("stash", "apply"), ("stash", "show"),
        ("merge", "-q", "--no-edit", br), ("merge", "--squash", br), ("merge", "--abort"), ("merge", "--no-ff", "--no-edit", br),
        ("rebase", "-q", br), ("rebase", "--abort"), ("rebase", "--continue"), ("rebase", "--skip"), ("rebase", "-i", br),
        ("cherry-pick", br), ("cherry-pick", "--abort"), ("cherry-pick", "--continue"), ("cherry-pick", "-n", br),
        ("revert", "--no-edit", "HEAD"), ("mv", f, f + ".moved"), ("rm", "-q", "--cached", f), ("rm", "-q", "-f", f),
        ("-c", "color.ui=always", "log", "-1"), ("-c", "color.ui=always", "diff", "--stat"), ("-C", ".", "status", "-s"),
        ("-C", "dir", "status", "-s"), ("-C", "dir", "commit", "-q", "--allow-empty", "-m", m), ("-C", "dir/sub", "commit", "-q", "-a", "-m", m),
        ("-C", "dir", "checkout", "-q", br), ("-C", "dir", "merge", "-q", "--no-edit", br), ("-C", "dir", "add", "-A"), ("-C", "dir/sub", "stash"), ("--no-pager", "log", "-1", "--format=%H"), ("--git-dir", ".git", "--work-tree", ".", "status", "-s"),
        ("--git-dir=.git", "log", "-1", "--oneline"), ("--exec-path",), ("--html-path",), ("--man-path",), ("--info-path",),
        ("--html-path", "status"), ("--", "status"), ("--version", "status", "-s"), ("-v", "log", "-1"), ("-p", "log", "-1"), ("--paginate", "log", "-1"), ("--literal-pathspecs", "add", f), ("--namespace=x", "log", "-1"),
        ("-c", "alias.zz=status -s", "zz"), ("--bare", "rev-parse", "--is-bare-repository"), ("--no-replace-objects", "log", "-1"),
        ("rev-parse", "HEAD"), ("rev-parse", "--abbrev-ref", "HEAD"), ("ls-files", "-s"), ("ls-tree", "-r", "HEAD"), ("for-each-ref",), ("show-ref",),
        ("cat-file", "-p", "HEAD"), ("tag", "t%d" % step), ("tag", "-a", "at%d" % step, "-m", "annot"), ("tag", "-l"), ("blame", f), ("blame", "-L", "1,2", f),
        ("clean", "-fd"), ("clean", "-n"), ("notes", "list"), ("notes", "add", "-f", "-m", "usernote", "HEAD"), ("describe", "--always"),
        ("nosuchcommand",), ("--version",), ("version",), ("-v",), ("--help",), ("help", "-a"), ("-h",), ("commit", "-h"), ("st",), ("ci", "-m", m), ("lg",),
        ("rec",), ("sh-alias",), ("cia", "-a", "-m", m), ("l12",), ("stc",), ("np",), ("-c", "core.abbrev=9", "l12"), ("quoted", "x y"), ("count-objects",), ("gc", "-q"), ("fsck",), ("reflog", "-3"), ("worktree", "list"),
        ("config", "user.name"), ("config", "--local", "x.y", "z%d" % step), ("update-index", "--refresh"), ("diff-tree", "-r", "HEAD"),
        ("grep", "line", "--", f), ("shortlog", "-s", "HEAD"), ("whatchanged", "-1"), ("apply", "--check", "/dev/null"), ("bisect", "log"),
        ("range-diff", "HEAD~1..HEAD", "HEAD~1..HEAD"), ("commit-tree", "HEAD^{tree}", "-m", "ct"), ("hash-object", f), ("check-ignore", f),
        # commands that read the user's standard input (see stdin_for): the proxy must leave it to git, unread
        ("reset", "-q", "--pathspec-from-file=-"), ("reset", "--pathspec-from-file=-", "--pathspec-file-nul"), ("add", "--pathspec-from-file=-"),
        ("commit", "-q", "-m", m, "--pathspec-from-file=-"), ("checkout", "--pathspec-from-file=-"), ("restore", "--pathspec-from-file=-"),
        ("restore", "--staged", "--pathspec-from-file=-"), ("stash", "push", "--pathspec-from-file=-"), ("rm", "-q", "--cached", "--pathspec-from-file=-"),
        ("hash-object", "--stdin"), ("hash-object", "-w", "--stdin"), ("update-index", "--add", "--stdin"), ("checkout-index", "-f", "--stdin"),
        ("notes", "add", "-f", "-F", "-", "HEAD"), ("tag", "-a", "st%d" % step, "-F", "-"), ("update-ref", "--stdin"), ("cat-file", "--batch-check"),
        ("commit-tree", "HEAD^{tree}"), ("diff-tree", "--stdin"), ("rev-list", "--stdin"), ("check-ignore", "--stdin"), ("stripspace",), ("apply", "--check", "-"),
        ("interpret-trailers", "--trailer", "Reviewed-by: x"), ("check-attr", "--stdin", "-a"), ("merge", "-q", "-F", "-", "--no-ff", br),
    ]


def stdin_for(c, t, f, step):
    """Bytes fed to the command's standard input (None: the command does not read it)."""
    j = " ".join(c)
    if c[-2:] == ("-F", "-") or j.startswith("tag -a st") or j.startswith("notes add -f -F -") or j.startswith("merge -q -F -"):
        return b"msg from stdin\n\nbody line\n"
    if "--pathspec-file-nul" in c:
        return f.encode() + b"\0"
    if any(a == "--pathspec-from-file=-" for a in c) or j in ("update-index --add --stdin", "checkout-index -f --stdin", "check-ignore --stdin", "check-attr --stdin -a"):
        return f.encode() + b"\n"
    if c[:1] == ("hash-object",) and "--stdin" in c:
        return ("content %d of %s\n" % (step, f)).encode()
    if j == "update-ref --stdin":
        return ("create refs/heads/ur%d HEAD\n" % step).encode()
    if j in ("cat-file --batch-check", "diff-tree --stdin", "rev-list --stdin"):
        return b"HEAD\n"
    if j == "commit-tree HEAD^{tree}":
        return b"tree commit message from stdin\n"
    if j == "stripspace" or j.startswith("interpret-trailers"):
        return b"subject  \n\n\n  body   \n\n"
    if j == "apply --check -":
        return b"this is not a patch\n"
    return None


ALIASES = [("st", "status -s"), ("ci", "commit -q"), ("lg", "log --oneline -3"), ("rec", "st"), ("sh-alias", "!echo from-shell-alias"),
           ("quoted", "log -1 --format='%s %an'"), ("loop1", "loop2"), ("loop2", "loop1"),
           ("cia", "-c user.name=AliasAuthor ci"), ("l12", "-c core.abbrev=12 lg"), ("stc", "-C dir st"), ("np", "--no-pager lg"),
           # aliases named like git's own commands: git ignores them
           ("commit", "status -s"), ("log", "status"), ("checkout", "log -1")]
NOCOMPARE_STDOUT = {"gc", "count-objects", "fsck"}


def run_case(case):
    seed, index = case["seed"], case["index"]
    prng = random.Random("%s:C06p:%s" % (seed, index))
    hooks_kind = prng.choice(["none", "dot-git", "dot-git", "hookspath", "hookspath-rel"])
    # git-ai's own repository hooks installed as well: without user hooks, or on top of a user core.hooksPath (absolute or relative),
    # which git-ai then has to forward to
    both = (prng.random() < 0.2 and hooks_kind == "none") or (prng.random() < 0.5 and hooks_kind in ("hookspath", "hookspath-rel"))
    off = set(case.get("flags_off", []))
    t = Twin("C06", seed, index, hooks_kind=hooks_kind, both_modes=both)
    used = []
    try:
        rng = t.rng
        for name, val in ALIASES:
            for w in (t.A, t.B):
                w.git("config", "alias." + name, val, plain=True, tick=False)
        for f in t.files:
            t.write_both(f, "\n".join(t.newline() for _ in range(4)) + "\n")
        t.run("add", "-A")
        t.run("commit", "-q", "-m", "init")
        nsteps = rng.randrange(8, 30)
        big = prng.random() < 0.3
        if big:
            # a file whose `show` / `log -p` output exceeds a pipe buffer several times over
            t.write_both("big.txt", "".join("%s %s\n" % (t.newline(), "x" * 60) for _ in range(6000)))
            t.run("add", "-A"); t.run("commit", "-q", "-m", "big file")
        for step in range(nsteps):
            if t.diffs:
                break
            r = rng.random()
            if big and r < 0.12:
                t.run_early_close(*rng.choice([("show", "HEAD:big.txt"), ("log", "-p", "--all"), ("cat-file", "-p", "HEAD:big.txt"), ("--no-pager", "log", "-p"), ("diff", "HEAD~1", "HEAD"), ("blame", "big.txt")]))
                continue
            if r < 0.03:
                t.run_signalled_session(rng.choice(["SIGHUP", "SIGINT", "SIGQUIT", "SIGTERM"]), ignored=rng.random() < 0.6)
                continue
            if r < 0.18:
                t.edit(); continue
            if r < 0.28:
                t.ai_edit(); continue
            pool = [c for c in templates(t, step) if " ".join(c) not in off and ("tmpl:" + " ".join(c[:2])) not in off and ("tmpl:" + c[0]) not in off]
            c = rng.choice(pool)
            if c[0] == "branch" and len(c) == 2 and not c[1].startswith("-"):
                t.branches.append(c[1])
            if c[0] in ("checkout", "switch") and ("-b" in c or "-c" in c):
                t.branches.append(c[-1])
            first = next((a for a in c if not a.startswith("-") and a not in (".", "dir", ".git") and "=" not in a), c[0])
            key_ = c[0] if c[0] in NOCOMPARE_STDOUT else first
            inp = stdin_for(c, t, t.cur_f, step)
            if inp is not None:
                t.stats["stdin_fed_commands"] = t.stats.get("stdin_fed_commands", 0) + 1
            t.run(*c, compare_stdout=(key_ not in NOCOMPARE_STDOUT and c[0] not in NOCOMPARE_STDOUT), input=inp)
            used.append(" ".join(a for a in c[:3] if not a.startswith("m") and not a[-1:].isdigit()))
        viol = []
        for d in t.diffs:
            viol.append(dict(kind="C06/" + d["diffs"][0]["what"], cmd=d["cmd"], diffs=d["diffs"]))
        r = dict(index=index, viol=viol, stats=dict(t.stats), sig="%s|%s|%s" % (hooks_kind, both, "|".join(sorted(set(used)))),
                 log=t.log, nontrivial=t.stats["compared"] > 3, inconclusive=None,
                 sample=dict(index=index, hooks=hooks_kind, both_modes=both, commands=t.log[:40]))
        r["argv_problems"] = t.argv_problems[:5]
        return r
    finally:
        t.destroy()


def main(tier, seed, replay=None):
    rep = R.Report("C06", tier, seed, "exploration", RULE,
                   ["real git 2.39.5 run on an identical twin repository is the oracle; stderr is not part of the property",
                    "the plain twin mirrors refs/notes/ai* after every step so that ref-printing commands agree",
                    "stdout of gc/count-objects/fsck is not compared byte-wise (it depends on object counts, which the notes change), exit status and state are"])
    flags_off = sorted(R.trigger_off_flags("C06"))
    if replay:
        import json
        case = json.load(open(replay))["case"]
        r = R._worker((run_case, case))
        for l in r.get("log") or []:
            R.log("  ", l)
        rep.add_results([r])
        return rep.finish(min_nontrivial=0)
    from . import witnesses
    witnesses.replay_for(rep, "C06")
    cases = (dict(seed=seed, index=i, flags_off=flags_off) for i in range(10 ** 6))
    res = R.run_pool(run_case, cases, R.budget(tier, 50, 480))
    rep.add_results(res)
    rep.extra["trigger_flags_off"] = flags_off
    return rep.finish()
