"""C07 — a failure inside git-ai never damages or silently alters a git operation (fault enumeration on twin repositories)."""
import json
import os
import random
import shutil
import stat

from ..twin import Twin
from ..world import copy_world, World, session_hash
from .. import runner as R
from .. import notes as N

RULE = ("for each (command class, repository state) the command is first run once on a copy to learn its N internal git subprocess calls "
        "(recording git stand-in installed through config git_path) and M journal writes (H-trace); then on fresh copies of the twin pair "
        "(proxy world / plain-git world) it is re-run with a fault injected: internal call k fails before running (exit 128), fails after "
        "running, or the wrapper is killed (SIGKILL) at call k — for the enumerated k; journal write j fails (source failpoint); and every "
        "file under .git/ai is deleted / truncated (0, 1/2, n-1 bytes) / has one byte flipped / is replaced by a directory / made unreadable. "
        "Outcome must be (A) indistinguishable from plain git on the twin (exit, stdout, state) or (B) refused before git started (non-zero "
        "exit, diagnostic on stderr, proxied git never spawned, state untouched); for kills the state must be the pre-state or the plain "
        "post-state. Afterwards a follow-up battery (status, AI edit + commit, blame, every note readable and parsed, new note sound) must pass. "
        "quick samples k (first, last, every 3rd) on four classes, thorough enumerates every k on all classes; non-trivial = a fault was actually "
        "injected (stand-in/failpoint fired); distinct = (class, fault mode, k) triples")

CLASSES = ["checkpoint-after-person", "commit", "amend", "commit-initial", "reset-mixed", "reset-hard", "stash-push", "stash-pop", "stash-pop-two", "checkout", "squash", "rebase", "cherry-pick", "checkpoint"]
QUICK_CLASSES = ["commit", "stash-pop", "stash-pop-two", "rebase", "reset-mixed", "amend", "checkpoint", "checkpoint-after-person"]


def build_state(t, cls):
    """Drive the twin pair into the state in which the command of class `cls` is interesting. Returns the command argv."""
    rng = t.rng
    for f in t.files[:3]:
        t.write_both(f, "\n".join(t.newline() for _ in range(5)) + "\n")
    t.run("add", "-A"); t.run("commit", "-q", "-m", "init")
    t.ai_edit(); t.run("add", "-A"); t.run("commit", "-q", "-m", "c1")
    if cls == "commit":
        t.ai_edit(); t.edit(); t.run("add", "-A")
        return ["commit", "-q", "-m", "under test"]
    if cls == "amend":
        t.ai_edit(); t.run("add", "-A")
        return ["commit", "-q", "--amend", "-m", "amended under test"]
    if cls == "commit-initial":
        t.ai_edit(); t.ai_edit(); t.run("add", t.files[0]); t.run("commit", "-q", "-m", "partial")
        t.run("add", "-A")
        return ["commit", "-q", "-m", "rest under test"]
    if cls in ("reset-mixed", "reset-hard"):
        t.ai_edit(); t.run("add", "-A"); t.run("commit", "-q", "-m", "c2"); t.ai_edit()
        return ["reset", "-q", "--mixed" if cls == "reset-mixed" else "--hard", "HEAD~1"]
    if cls == "stash-push":
        t.ai_edit()
        return ["stash", "push", "-q"]
    if cls == "stash-pop":
        t.ai_edit(); t.run("stash", "push", "-q")
        return ["stash", "pop", "-q"]
    if cls == "stash-pop-two":
        # two stash entries that touch the same place of the same file: the older one holds an agent's lines, the newer one (the one
        # that is popped) a person's. A fault must not make the pop pick up the OTHER entry's attribution for the person's lines.
        f = t.files[0]
        for who in ("ai", "person"):
            b = t.A.read_bytes(f).decode().splitlines()
            if who == "ai":
                t.A.human_ckpt([f])
            b[1:1] = [t.newline() + " " + who, t.newline() + " " + who]
            t.write_both(f, "\n".join(b) + "\n")
            if who == "ai":
                t.A.ai_ckpt("S1", [f])
            t.run("stash", "push", "-q")
        # a commit of another file in between: the pop happens on a HEAD whose working log knows nothing about f
        g = t.files[1]
        t.write_both(g, t.A.read_bytes(g).decode() + t.newline() + "\n")
        t.run("add", "-A"); t.run("commit", "-q", "-m", "unrelated commit between the stashes and the pop")
        return ["stash", "pop", "-q"]
    if cls == "checkout":
        t.run("branch", "other"); t.ai_edit()
        return ["checkout", "-q", "other"]
    if cls == "squash":
        t.run("checkout", "-q", "-b", "side"); t.ai_edit(); t.run("add", "-A"); t.run("commit", "-q", "-m", "s1")
        t.ai_edit(); t.run("add", "-A"); t.run("commit", "-q", "-m", "s2"); t.run("checkout", "-q", "main")
        return ["merge", "--squash", "side"]
    if cls == "rebase":
        t.run("checkout", "-q", "-b", "feat"); t.ai_edit(); t.run("add", "-A"); t.run("commit", "-q", "-m", "f1")
        t.run("checkout", "-q", "main"); t.write_both("up.txt", "u\n"); t.run("add", "-A"); t.run("commit", "-q", "-m", "up")
        t.run("checkout", "-q", "feat")
        return ["rebase", "main"]
    if cls == "cherry-pick":
        t.run("checkout", "-q", "-b", "src"); t.ai_edit(); t.run("add", "-A"); t.run("commit", "-q", "-m", "p1")
        t.run("checkout", "-q", "main"); t.write_both("up.txt", "u\n"); t.run("add", "-A"); t.run("commit", "-q", "-m", "up")
        return ["cherry-pick", "src"]
    if cls == "checkpoint-after-person":
        # the journal's last record is a person's checkpoint holding the person's own uncommitted lines; then an agent edits the
        # same file and reports. If the person's record is lost to a fault, the agent's report must not end up claiming those lines
        f = t.files[0]
        b = t.A.read_bytes(f).decode().splitlines()
        b[1:1] = [t.newline() + " person", t.newline() + " person"]
        t.write_both(f, "\n".join(b) + "\n")
        t.A.human_ckpt([f])
        b = t.A.read_bytes(f).decode().splitlines()
        b[len(b):len(b)] = [t.newline() + " ai"]
        t.write_both(f, "\n".join(b) + "\n")
        return ["CHECKPOINT", f]
    if cls == "checkpoint":
        f = t.files[0]
        t.A.human_ckpt([f])
        b = t.A.read_bytes(f).decode().splitlines()
        b[1:1] = [t.newline() + " ai"]
        t.write_both(f, "\n".join(b) + "\n")
        return ["CHECKPOINT", f]
    raise ValueError(cls)


def clone_pair(t):
    a = copy_world(t.A, "c07A"); b = copy_world(t.B, "c07B")
    # a panic caught by git-ai's own guard only adds text to stderr (not part of the comparison); an escaped one changes the exit status
    a.panic_is_error = False
    t2 = Twin.__new__(Twin)
    t2.__dict__.update(t.__dict__)
    t2.A, t2.B = a, b
    t2.diffs = []; t2.argv_problems = []; t2.log = []
    t2.stats = dict(t.stats)
    t2.stats.pop("battery_commit_refused_on_persistent_corruption", None)
    return t2


def run_cmd(t, w, argv, env=None):
    if argv[0] == "CHECKPOINT":
        payload = {"type": "ai_agent", "repo_working_dir": w.repo, "edited_filepaths": [argv[1]], "transcript": {"messages": [{"type": "user", "text": "x"}]},
                   "agent_name": "tool", "model": "m", "conversation_id": "S1"}
        if w.mode == "plain":
            class P: rc = 0; stdout = ""; stderr = ""; out = b""; err = b""
            return P()
        w.tick()
        return w.ga("checkpoint", "agent-v1", "--hook-input", json.dumps(payload), env=env)
    return w.git(*argv, env=env)


def notes_snapshot(w):
    nr = N.NotesReader(w)
    return {obj: nr.blob(ents[0][0]) for obj, ents in nr.mapping().items()}


def battery(t, w, label, persistent_corruption=False, pre_notes=None):
    """After the fault: later commands still work, notes stay readable, no attribution is invented."""
    probs = []
    if pre_notes is not None:
        now = notes_snapshot(w)
        for obj, text in pre_notes.items():
            if obj not in now:
                probs.append("existing note of %s disappeared" % obj[:12])
            elif now[obj] != text:
                probs.append("existing note of %s was altered" % obj[:12])
    for k in ("GITSHIM_FAIL_AT", "GITSHIM_MODE", "GIT_AI_VERIF_FAIL_IO_AT"):
        w.env_base.pop(k, None)
    # an interrupted operation may legitimately be in progress in both worlds; finish it the same way git users would
    gd = os.path.join(w.repo, ".git")
    for marker, cmd in (("rebase-merge", "rebase"), ("rebase-apply", "rebase"), ("CHERRY_PICK_HEAD", "cherry-pick"), ("MERGE_HEAD", "merge")):
        if os.path.exists(os.path.join(gd, marker)):
            w.git(cmd, "--abort")
    lock = os.path.join(gd, "index.lock")
    if os.path.exists(lock):
        os.remove(lock)   # a killed git leaves its lock behind (plain git does too)
    p = w.git("status", "--porcelain")
    if p.rc != 0:
        probs.append("status failed rc=%d: %s" % (p.rc, p.stderr[-200:]))
    f = "battery.txt"
    try:
        w.human_ckpt([f])
        w.write_bytes(f, b"battery human line\nbattery ai line one\nbattery ai line two\n")
        w.ai_ckpt("S9", [f])
    except Exception as e:
        probs.append("checkpoint after fault failed: %s" % repr(e)[:200])
    w.git("add", "-A")
    before = t.state(w) if persistent_corruption else None
    p = w.git("commit", "-q", "-m", "battery")
    if p.rc != 0:
        if persistent_corruption and p.stderr.strip() and t.state(w) == before and not [c for c in w.shim_calls()[-60:] if c.get("proxied") and c.get("argv", [])[-3:] == ["-q", "-m", "battery"]]:
            # private state is still corrupted: refusing before git starts, with a diagnostic and an untouched repository, is outcome (B)
            t.stats["battery_commit_refused_on_persistent_corruption"] = t.stats.get("battery_commit_refused_on_persistent_corruption", 0) + 1
            return probs
        probs.append("commit after fault failed rc=%d: %s" % (p.rc, p.stderr[-300:]))
        return probs
    head = w.ogit("rev-parse", "HEAD").strip()
    nr = N.NotesReader(w)
    m = nr.mapping()
    for obj, ents in m.items():
        if len(ents) != 1:
            probs.append("two notes for %s" % obj)
        text = nr.blob(ents[0][0])
        if nr.git("cat-file", "-t", obj).strip() != "commit":
            continue
        try:
            note = N.parse_note(text)
        except N.NoteError as e:
            probs.append("unreadable note on %s: %s" % (obj[:10], e))
            continue
        if obj == head:
            lines = note.files.get(f, {})
            want = session_hash("S9")
            got = {h: sorted(ls) for h, ls in lines.items()}
            bad = {h: ls for h, ls in got.items() if h != want or any(i not in (1, 2, 3) for i in ls)}
            if bad:
                probs.append("battery commit note invents attribution: %r" % got)
            for other, d in note.files.items():
                if other != f and d:
                    # no attribution is invented: in these worlds every line an agent wrote ends in " ai"
                    ol = (nr.file_lines(head, other) or [])
                    for h, ls in d.items():
                        for i in ls:
                            if 1 <= i <= len(ol) and not ol[i - 1].rstrip("\r").endswith(" ai"):
                                probs.append("battery commit note credits a session with a line no agent wrote: %s:%d %r" % (other, i, ol[i - 1][:60]))
                                break
                    # claims about other files in the battery commit must point at lines it added and that an agent wrote
                    added = set()
                    out = w.ogit("diff", "-U0", "--no-color", "--no-ext-diff", "%s^" % head, head, "--", other)
                    if not out.strip():
                        probs.append("battery commit note lists %s which it did not change" % other)
    p = w.ga("blame", "--json", f)
    if p.rc != 0:
        probs.append("blame after fault failed: %s" % p.stderr[-200:])
    return probs


def judge(t, t2, pa, pb, pre_state, mode, fired, what):
    """Outcome (A) same as plain git, or (B) refused before git started."""
    viol = []
    sa, sb = t2.state(t2.A), t2.state(t2.B)
    oa = pa.stdout.replace(t2.A.root, "<ROOT>"); ob = pb.stdout.replace(t2.B.root, "<ROOT>")
    same_state = all(sa[k] == sb[k] for k in sa)
    calls = t2.A.shim_calls()
    proxied = [c for c in calls if c.get("proxied")]
    if mode == "kill":
        if not same_state and not all(sa[k] == pre_state[k] for k in sa):
            diffk = [k for k in sa if sa[k] != sb[k]]
            viol.append(dict(kind="C07/killed-state-neither-pre-nor-plain", what=what, differs_from_plain=diffk, differs_from_pre=[k for k in sa if sa[k] != pre_state[k]]))
        return viol
    if pa.rc == pb.rc and oa == ob and same_state:
        return viol     # (A)
    refused = pa.rc != 0 and not proxied and all(sa[k] == pre_state[k] for k in sa)
    if refused:
        if not pa.stderr.strip():
            viol.append(dict(kind="C07/refused-without-diagnostic", what=what, rc=pa.rc))
        return viol     # (B)
    d = []
    if pa.rc != pb.rc:
        d.append(("exit", pa.rc, pb.rc, pa.stderr[-300:]))
    if oa != ob:
        d.append(("stdout", oa[-200:], ob[-200:]))
    for k in sa:
        if sa[k] != sb[k]:
            d.append(("state:" + k, str(sa[k])[-300:], str(sb[k])[-300:]))
    viol.append(dict(kind="C07/outcome-neither-plain-nor-refused", what=what, proxied_spawned=len(proxied), diffs=d[:4]))
    return viol


def run_case(case):
    seed, index, cls = case["seed"], case["index"], case["cls"]
    t = Twin("C07", seed, "%s-%s" % (cls, case.get("state_variant", 0)), hooks_kind="none")
    results = []
    stats = dict(cases=0, faults_fired=0, outcome_plain=0, outcome_refused=0, battery_runs=0, internal_calls=0, journal_writes=0)
    viol = []
    sigs = set()
    try:
        argv = build_state(t, cls)
        t.A.ga("blame", "--json", t.files[0])   # make sure lazily created state exists before copying
        pre_state = t.state(t.A)
        pre_notes = notes_snapshot(t.A)
        # ---- recording run
        rec = clone_pair(t)
        try:
            open(rec.A.shim_counter, "w").write("0")
            open(rec.A.shim_log, "w").close()
            open(rec.A.trace_path, "w").close()
            run_cmd(rec, rec.A, argv)
            calls = [c for c in rec.A.shim_calls() if not c.get("proxied")]
            N_calls = len(calls)
            M_writes = sum(1 for e in rec.A.trace() if e.get("kind") == "journal_write")
        finally:
            rec.destroy()
        stats["internal_calls"] = N_calls; stats["journal_writes"] = M_writes
        ks = list(range(1, N_calls + 1))
        if case.get("tier") != "thorough" and cls != "stash-pop-two":
            # (the two-entry pop is short and its interesting calls are the first few: always every k)
            ks = sorted(set([1, N_calls] + list(range(2 + index % 3, N_calls, 3)))) if N_calls else []
        plan = [("git", mode, k) for mode in ("fail", "fail-after", "kill") for k in ks]
        plan += [("io", "fail", j) for j in range(1, M_writes + 1)]
        if case.get("corrupt"):
            aidir = os.path.join(t.A.repo, ".git", "ai")
            files = []
            for dp, dn, fn in os.walk(aidir):
                if "hooks" in dn:
                    dn.remove("hooks")
                for f in fn:
                    files.append(os.path.relpath(os.path.join(dp, f), aidir))
            rngc = random.Random("%s:%s:corrupt" % (seed, index))
            if case.get("tier") != "thorough":
                files = rngc.sample(files, min(4, len(files)))
            off = set(case.get("flags_off", []))
            plan = [("corrupt", how, f) for f in files for how in ("delete", "trunc0", "trunc-half", "trunc-n1", "flip", "dir", "unreadable")
                    if not ("corrupt_blocks_commit" in off and how in ("dir", "unreadable"))]
            if case.get("tier") != "thorough":
                plan = rngc.sample(plan, min(12, len(plan)))
            # the journals themselves are always part of the plan: cut in the middle of their last record
            allf = []
            for dp, dn, fn in os.walk(aidir):
                for f in fn:
                    if f in ("checkpoints.jsonl", "INITIAL"):
                        allf.append(os.path.relpath(os.path.join(dp, f), aidir))
            if cls == "checkpoint-after-person" and "corrupt_loses_person_checkpoint" in off:
                # finding D67: when the person's record (or its content snapshot) is gone altogether - journal deleted / emptied, snapshot
                # blob deleted or damaged - the agent's report claims the person's uncommitted lines; while it is open this class only
                # damages the journal in ways git-ai can notice (a record cut in the middle)
                plan = []
            for f in allf:
                plan.append(("corrupt", "trunc-midlast", f))
        for kind, mode, k in plan:
            t2 = clone_pair(t)
            try:
                open(t2.A.shim_counter, "w").write("0")
                open(t2.A.shim_log, "w").close()
                open(t2.A.trace_path, "w").close()
                env = {}
                what = "%s %s %s" % (kind, mode, k)
                if kind == "git":
                    env = {"GITSHIM_FAIL_AT": str(k), "GITSHIM_MODE": mode}
                elif kind == "io":
                    env = {"GIT_AI_VERIF_FAIL_IO_AT": str(k)}
                else:
                    p = os.path.join(t2.A.repo, ".git", "ai", k)
                    try:
                        data = open(p, "rb").read()
                    except OSError:
                        data = b""
                    if mode == "delete":
                        os.remove(p)
                    elif mode == "trunc0":
                        open(p, "wb").close()
                    elif mode == "trunc-half":
                        open(p, "wb").write(data[:len(data) // 2])
                    elif mode == "trunc-n1":
                        open(p, "wb").write(data[:-1])
                    elif mode == "trunc-midlast":
                        body = data.rstrip(b"\n")
                        start = body.rfind(b"\n") + 1
                        open(p, "wb").write(data[:start + max(1, (len(body) - start) // 2)])
                    elif mode == "flip":
                        if data:
                            i = len(data) // 3
                            open(p, "wb").write(data[:i] + bytes([data[i] ^ 0x5a]) + data[i + 1:])
                    elif mode == "dir":
                        os.remove(p); os.mkdir(p)
                    elif mode == "unreadable":
                        os.chmod(p, 0)
                pa = run_cmd(t2, t2.A, argv, env=env)
                pb = run_cmd(t2, t2.B, argv)
                t2.B.ogit("fetch", "-q", "--no-write-fetch-head", t2.A.repo, "+refs/notes/ai*:refs/notes/ai*")
                stats["cases"] += 1
                fired = True
                if kind == "git":
                    fired = any("injected failure" in pa.stderr for _ in [0]) or mode == "kill" or any(c.get("n") == k for c in t2.A.shim_calls())
                elif kind == "io":
                    fired = any(e.get("kind") == "journal_write_failed" for e in t2.A.trace())
                if fired:
                    stats["faults_fired"] += 1
                    sigs.add("%s|%s|%s|%s" % (cls, kind, mode, k))
                if b"panicked at" in pa.err:
                    stats["caught_panics_reported_on_stderr"] = stats.get("caught_panics_reported_on_stderr", 0) + 1
                if argv[0] == "CHECKPOINT":
                    # not a wrapped git command: the repository (as git sees it) must be untouched and later commands must work
                    sa = t2.state(t2.A)
                    if any(sa[x] != pre_state[x] for x in sa):
                        viol.append(dict(kind="C07/checkpoint-fault-changed-repository", what=what, keys=[x for x in sa if sa[x] != pre_state[x]]))
                else:
                    v = judge(t, t2, pa, pb, pre_state, mode if kind == "git" else "fail", fired, what)
                    if not v:
                        if pa.rc == pb.rc:
                            stats["outcome_plain"] += 1
                        else:
                            stats["outcome_refused"] += 1
                    viol.extend(v)
                if kind == "corrupt" and mode == "unreadable":
                    try:
                        os.chmod(os.path.join(t2.A.repo, ".git", "ai", k), stat.S_IRUSR | stat.S_IWUSR)
                    except OSError:
                        pass
                probs = battery(t2, t2.A, what, persistent_corruption=(kind == "corrupt"), pre_notes=pre_notes)
                stats["battery_commit_refused_on_persistent_corruption"] = stats.get("battery_commit_refused_on_persistent_corruption", 0) + t2.stats.get("battery_commit_refused_on_persistent_corruption", 0)
                stats["battery_runs"] += 1
                for pr in probs:
                    viol.append(dict(kind="C07/follow-up-failed", what=what, problem=pr))
                if viol:
                    for v in viol:
                        v.setdefault("cls", cls); v.setdefault("argv", argv)
                    break
            finally:
                t2.destroy()
        return dict(index=index, viol=viol, stats=stats, sig="|".join(sorted(sigs))[:200] + "#%d" % len(sigs), log=[["class", cls], ["argv"] + argv, ["plan", len(plan)]] + t.log[-12:],
                    nontrivial=stats["faults_fired"] > 0, inconclusive=None, nsigs=sorted(sigs),
                    sample=dict(cls=cls, argv=argv, internal_calls=N_calls, journal_writes=M_writes, plan=[list(map(str, p)) for p in plan[:12]]))
    finally:
        t.destroy()


def main(tier, seed, replay=None):
    rep = R.Report("C07", tier, seed, "fault_enumeration", RULE,
                   ["faults are injected at the process boundary (git stand-in) and at the three journal writers (source failpoint); faults inside git itself, ENOSPC/EIO from the kernel and power loss are out of reach",
                    "real git on the twin is the oracle for outcome (A); stderr is only required to be non-empty for outcome (B)"])
    if replay:
        case = json.load(open(replay))["case"]
        r = R._worker((run_case, case))
        rep.add_results([r])
        return rep.finish(min_nontrivial=0)
    from . import witnesses
    witnesses.replay_for(rep, "C07")
    classes = CLASSES if tier == "thorough" else QUICK_CLASSES
    flags_off = sorted(R.trigger_off_flags("C07"))
    cases = []
    i = 0
    for rnd in range(50):
        for cls in classes:
            cases.append(dict(seed=seed, index=i, cls=cls, tier=tier, state_variant=rnd, flags_off=flags_off)); i += 1
            cases.append(dict(seed=seed, index=i, cls=cls, tier=tier, state_variant=rnd, corrupt=True, flags_off=flags_off)); i += 1
    res = R.run_pool(run_case, cases, R.budget(tier, 60, 600))
    # distinct = distinct (class, fault, k) triples actually fired
    allsigs = set()
    for r in res:
        allsigs.update(r.get("nsigs") or [])
    rep.add_results(res)
    rep.sigs = allsigs
    rep.extra["classes"] = classes
    rep.extra["exhaustive"] = False
    if tier == "thorough":
        memcheck_shard(rep, seed)
    return rep.finish()


def memcheck_shard(rep, seed):
    """valgrind memcheck around the proxy itself (fault-free and with an internal git call failing): an error report is a violation."""
    from ..world import BIN, run
    w = World(name="C07-vg", mode="wrapper", shim=True)
    w.panic_is_error = False
    errs = n = 0
    try:
        w.write_bytes("a.txt", b"one\ntwo\nthree\n")
        w.git("add", "-A"); w.git("commit", "-q", "-m", "init")
        script = [(["status", "-s"], None), (["commit", "-q", "-m", "c1"], None), (["commit", "-q", "--amend", "-m", "c1b"], None),
                  (["commit", "-q", "-m", "c2"], {"GITSHIM_FAIL_AT": "5", "GITSHIM_MODE": "fail"}),
                  (["commit", "-q", "-m", "c3"], {"GIT_AI_VERIF_FAIL_IO_AT": "1"}),
                  (["stash", "push"], None), (["stash", "pop"], None), (["reset", "--mixed", "HEAD~1"], None),
                  (["rebase", "HEAD~1"], {"GITSHIM_FAIL_AT": "9", "GITSHIM_MODE": "fail-after"}), (["log", "--oneline", "-3"], None)]
        for i, (argv, fault) in enumerate(script):
            if argv[0] in ("commit", "stash") and argv[-1] != "pop":
                w.human_ckpt(["a.txt"])
                w.write_bytes("a.txt", (w.read_bytes("a.txt") or b"") + b"ai line %d\n" % i)
                w.ai_ckpt("S1", ["a.txt"])
                if argv[0] == "commit":
                    w.git("add", "-A")
            w.tick()
            e = w.env(dict(fault or {}, GIT_AI="git"))
            pr = run(["valgrind", "-q", "--error-exitcode=97", "--leak-check=no", "--trace-children=no", BIN] + argv, w.repo, e, timeout=900)
            n += 1
            rep.counters["memcheck_invocations"] += 1
            if pr.rc == 97 or b"Invalid read" in pr.err or b"Invalid write" in pr.err or b"uninitialised" in pr.err:
                errs += 1
                rep.direct_violation("C07/memcheck-error", dict(argv=argv, fault=fault, stderr=pr.stderr[-800:]))
        rep.extra["memcheck"] = dict(invocations=n, error_contexts=errs)
    except Exception as ex:
        rep.inconclusive.append(dict(case="memcheck shard", why=repr(ex)[:300]))
    finally:
        w.destroy()
