"""C09 — AI blame is git blame plus the notes, in every output format."""
import json
import os
import random
import re

from ..ops import Hist
from . import common as C
from .. import notes as N

RULE = ("histories from the commit / partial commit / rebase / cherry-pick / squash / merge generators plus renames (git mv with and without "
        "edits), copies, and files deleted and re-added; for several files x revisions (HEAD and detached checkouts of earlier commits) x "
        "option sets (none, -L a,b, --ignore-rev, --ignore-revs-file, combinations) `git-ai blame` is run in json / default / --porcelain / "
        "--line-porcelain / --incremental form and compared line by line with `git blame --line-porcelain` under the same options: same "
        "commit per line in every flavour; AI(S) exactly when the originating commit's independently parsed note lists the original line "
        "number under the path the file had in that commit; json and default output agree under -L. "
        "non-trivial = a comparison that involved at least one AI line; distinct = (history ops, option set, has-rename) signatures")

HDR = re.compile(r"^([0-9a-f]{40}) (\d+) (\d+)(?: (\d+))?$")


def git_ref_blame(sc, f, opts, rev=None):
    """[(final_line, commit, orig_line, filename)] from git's own --line-porcelain."""
    args = ["blame", "--line-porcelain"] + opts + ([rev] if rev else []) + ["--", f]
    p = sc.w.ogit(*args, raw=True)
    if p.rc != 0:
        return None
    res = []
    cur = None
    for ln in p.out.decode("utf-8", "replace").split("\n"):
        m = HDR.match(ln)
        if m and (cur is None or cur.get("done")):
            cur = dict(commit=m.group(1), orig=int(m.group(2)), final=int(m.group(3)), filename=None, done=False)
        elif cur is not None and not cur["done"]:
            if ln.startswith("filename "):
                fn = ln[9:]
                if fn.startswith('"'):
                    from ..engine import unquote_c
                    fn = unquote_c(fn.encode()).decode("utf-8", "replace")
                cur["filename"] = fn
            elif ln.startswith("\t"):
                cur["done"] = True
                res.append((cur["final"], cur["commit"], cur["orig"], cur["filename"]))
    return res


def parse_porcelain_commits(text, incremental=False):
    """{final_line: commit} from git-ai's porcelain-like outputs."""
    out = {}
    for ln in text.split("\n"):
        m = HDR.match(ln)
        if m:
            final = int(m.group(3))
            n = int(m.group(4)) if m.group(4) else 1
            if incremental or m.group(4):
                for i in range(n):
                    out.setdefault(final + i, m.group(1))
            out[final] = m.group(1)
    return out


DEFAULT_LINE = re.compile(r"^\^?([0-9a-f]{7,40}) .*?\(\s*(.*?)\s+\d{4}-\d\d-\d\d \d\d:\d\d:\d\d [+-]\d{4}\s+(\d+)\) ?(.*)$")


def compare_one(sc, f, opts, label, nmap_cache):
    ref = git_ref_blame(sc, f, opts)
    fa = ("./" + f) if f.startswith("-") else f
    pj = sc.w.ga("blame", "--json", *opts, fa)
    if ref is None:
        return False   # git itself refuses: nothing to compare
    if not ref:
        # empty file: git blame prints nothing and exits 0
        if sc.profile.get("blame_empty_file", True):
            sc.stats["empty_files_compared"] += 1
            if pj.rc != 0:
                sc.violation("C09/empty-file-fails", file=f, opts=opts, rc=pj.rc, err=pj.stderr[-200:], where=label)
        else:
            sc.stats["empty_files_skipped"] += 1
        return False
    sc.stats["comparisons"] += 1
    if pj.rc != 0:
        sc.violation("C09/json-failed", file=f, opts=opts, rc=pj.rc, err=pj.stderr[-300:], where=label)
        return False
    try:
        j = json.loads(pj.stdout)
    except ValueError:
        sc.violation("C09/json-unparsable", file=f, opts=opts, out=pj.stdout[:200], where=label)
        return False
    got = {}
    for rng, h in j.get("lines", {}).items():
        a, _, b = rng.partition("-")
        for i in range(int(a), int(b or a) + 1):
            got[i] = h
    ai_seen = False
    mapping = nmap_cache.setdefault("m", sc.nr.mapping())
    for final, commit, orig, fname in ref:
        key_ = ("note", commit)
        if key_ not in nmap_cache:
            try:
                nmap_cache[key_] = sc.nr.note_for(commit, mapping)
            except N.NoteError:
                nmap_cache[key_] = None
        note = nmap_cache[key_]
        exp = set()
        if note:
            for h, ls in note.files.get(fname, {}).items():
                if orig in ls:
                    exp.add(h)
        g = got.get(final)
        sc.stats["blame_lines_compared"] += 1
        if exp:
            ai_seen = True
        if (g is None) != (not exp) or (g is not None and g not in exp):
            sc.violation("C09/ai-verdict", file=f, opts=opts, line=final, commit=commit, orig_line=orig, orig_path=fname, expected=sorted(exp), got=g, where=label)
            return ai_seen
    extra = set(got) - {r[0] for r in ref}
    if extra:
        sc.violation("C09/json-lines-outside-range", file=f, opts=opts, lines=sorted(extra)[:10], where=label)
    refc = {r[0]: r[1] for r in ref}
    for flavour in ("--porcelain", "--line-porcelain", "--incremental"):
        p = sc.w.ga("blame", flavour, *opts, fa)
        if p.rc != 0:
            sc.violation("C09/flavour-failed", flavour=flavour, file=f, opts=opts, err=p.stderr[-200:], where=label)
            continue
        gc = parse_porcelain_commits(p.stdout, incremental=(flavour == "--incremental"))
        if gc != refc:
            diff = [(i, refc.get(i), gc.get(i)) for i in sorted(set(refc) | set(gc)) if refc.get(i) != gc.get(i)][:5]
            sc.violation("C09/commit-differs", flavour=flavour, file=f, opts=opts, diff=diff, where=label)
    p = sc.w.ga("blame", *opts, fa)
    if p.rc != 0:
        sc.violation("C09/flavour-failed", flavour="default", file=f, opts=opts, err=p.stderr[-200:], where=label)
    else:
        seen = {}
        for ln in p.stdout.split("\n"):
            m = DEFAULT_LINE.match(ln)
            if m:
                seen[int(m.group(3))] = (m.group(1), m.group(2))
        if set(seen) != set(refc):
            sc.violation("C09/default-lines-differ", file=f, opts=opts, missing=sorted(set(refc) - set(seen))[:5], extra=sorted(set(seen) - set(refc))[:5], where=label)
        else:
            for i, (abbr, who) in seen.items():
                if not refc[i].startswith(abbr):
                    sc.violation("C09/commit-differs", flavour="default", file=f, opts=opts, diff=[(i, refc[i], abbr)], where=label)
                    break
                is_ai_default = (who == "tool")
                if is_ai_default != (i in got):
                    sc.violation("C09/json-vs-default", file=f, opts=opts, line=i, default_author=who, json=got.get(i), where=label)
                    break
    return ai_seen


def option_sets(sc, f, nlines, commits):
    rng = sc.rng
    sets = [[]]
    if nlines >= 2:
        a = rng.randrange(1, nlines + 1); b = rng.randrange(a, nlines + 1)
        sets.append(["-L", "%d,%d" % (a, b)])
    if nlines >= 4:
        # several -L ranges: disjoint, touching, overlapping, nested, given in any order (git blames the union)
        def one():
            x = rng.randrange(1, nlines + 1); y = rng.randrange(x, nlines + 1)
            return x, y
        (a1, b1), (a2, b2) = one(), one()
        kind = rng.choice(["random", "nested", "nested-rev", "touching", "three"])
        if kind in ("nested", "nested-rev"):
            a1, b1 = rng.randrange(1, nlines // 2 + 1), rng.randrange(nlines // 2 + 1, nlines + 1)
            a2 = rng.randrange(a1, b1 + 1); b2 = rng.randrange(a2, b1 + 1)
            if kind == "nested-rev":
                (a1, b1), (a2, b2) = (a2, b2), (a1, b1)
        elif kind == "touching":
            a1, b1 = 1, max(1, nlines // 2); a2, b2 = b1 + 1, nlines
        multi = ["-L", "%d,%d" % (a1, b1), "-L", "%d,%d" % (a2, b2)]
        if kind == "three":
            a3, b3 = one()
            multi += ["-L", "%d,%d" % (a3, b3)]
        sets.append(multi)
        # relative and open-ended forms (finding D59 while the flag is off) and -w (finding D60)
        a = rng.randrange(1, nlines + 1)
        if sc.profile.get("blame_L_relative_forms", True):
            sets.append(rng.choice([["-L", "%d,+%d" % (a, rng.randrange(1, nlines - a + 2))], ["-L", "%d,-%d" % (a, rng.randrange(1, a + 1))],
                                    ["-L", "%d," % a], ["-L", ",%d" % a], ["-L", "%d" % a]]))
        if sc.profile.get("blame_w", True):
            sets.append(["-w"] + (rng.choice([[], ["-L", "%d,%d" % (a1, b1)]])))
    if len(commits) > 2:
        c = rng.choice(commits[:-1])
        sets.append(["--ignore-rev", c])
        revs = sc.w.path("ignore-revs.txt", sc.w.root)
        with open(revs, "w") as fh:
            fh.write("# comment\n" + "\n".join(rng.sample(commits[:-1], min(2, len(commits) - 1))) + "\n")
        sets.append(["--ignore-revs-file", revs])
        if nlines >= 2:
            sets.append(["-L", "%d,%d" % (1, max(1, nlines // 2)), "--ignore-rev", c])
        # a date cut-off just after one of the older commits: that commit becomes git's boundary commit (lines of everything older are
        # pinned on it), while the lines it added itself are still its own - and AI exactly when its note lists them
        import datetime
        cb = rng.choice(commits[:-1])
        ct = int(sc.w.ogit("log", "-1", "--format=%ct", cb).strip())
        iso = datetime.datetime.fromtimestamp(ct + 1, datetime.timezone.utc).strftime("%Y-%m-%dT%H:%M:%SZ")
        sets.append(["--since", iso])
    return sets


def run_case(case):
    seed, index, flags_off = case["seed"], case["index"], case.get("flags_off", [])
    prng = random.Random("%s:C09p:%s" % (seed, index))
    prof = C.base_profile(prng, flags_off)
    sc = Hist("C09", seed, index, prof)
    try:
        rng = sc.rng
        C.setup_repo(sc, 3, 12)
        renamed = False
        for k in range(rng.choice([2, 3, 4])):
            op = rng.choice(["commit", "commit", "partial", "rename", "rename-edit", "rename-onto-old-name", "rename-onto-old-name", "two-renames-merged", "copy", "readd", "rebase", "cherry", "squash", "merge"])
            if os.environ.get("VERIF_C09_OP"):
                op = os.environ["VERIF_C09_OP"]
            for _ in range(rng.choice([1, 2, 3])):
                sc.do_edit()
            if op == "commit":
                sc.commit_all("c")
            elif op == "partial":
                sc.op_hunk_commit(); sc.commit_all("rest")
            elif op in ("rename", "rename-edit"):
                sc.commit_all("before-mv")
                f = rng.choice([x for x in sc.files if x in sc.tracked()] or sc.files)
                nf = "renamed%d_%s" % (sc.n, f.replace("/", "_"))
                p = sc.g("mv", "--", f, nf)
                if p.rc == 0:
                    sc.files[sc.files.index(f)] = nf
                    if f in sc.styles:
                        sc.styles[nf] = sc.styles[f]
                    renamed = True
                    if op == "rename-edit":
                        sc.do_edit(f=nf, kinds=["ins"])
                sc.commit_all("mv")
            elif op == "rename-onto-old-name":
                # delete one tracked file in one commit, later rename another file onto the freed name (no edit): the old
                # notes still list the *old* file under that name
                sc.commit_all("before-swap")
                tr = [x for x in sc.files if x in sc.tracked()]
                if len(tr) >= 2:
                    a, b = rng.sample(tr, 2)
                    # one commit in which an agent and a person write at the same line numbers of the two files
                    pos = rng.choice([0, 1, 2])
                    la = sc.read(a); lb = sc.read(b)
                    who = rng.choice(sc.sessions)
                    sc.w.human_ckpt([b])
                    lb[min(pos, len(lb)):min(pos, len(lb))] = [sc.fresh(who) for _ in range(rng.choice([1, 2, 3]))]
                    sc.write(b, lb); sc.post_ai(who, b)
                    la[min(pos, len(la)):min(pos, len(la))] = [sc.fresh("human") for _ in range(rng.choice([2, 3, 4]))]
                    sc.write(a, la)
                    sc.commit_all("same numbers")
                    sc.g("rm", "-q", "--", b); sc.commit_all("rm old")
                    if rng.random() < 0.5:
                        sc.do_edit(f=a); sc.commit_all("between")
                    p = sc.g("mv", "--", a, b)
                    if p.rc == 0:
                        sc.files.remove(a)
                        if a in sc.styles:
                            sc.styles[b] = sc.styles[a]
                        renamed = True
                    else:
                        sc.files.remove(b)
                    sc.commit_all("mv onto old name")
            elif op == "two-renames-merged":
                # ONE commit reached under TWO paths in a single blame: commit X holds a (agent lines) and b (a person's lines at the same
                # numbers); one branch renames a -> c, another renames b -> c; the merge keeps the lines of both
                sc.commit_all("before-two-renames")
                tr = [x for x in sc.files if x in sc.tracked() and sc.read(x)]
                if len(tr) == 1:
                    extra = "second%d.txt" % sc.n
                    sc.write(extra, [sc.fresh("human", hostile=False) for _ in range(4)])
                    sc.files.append(extra)
                    sc.commit_all("a second file")
                    tr.append(extra)
                if len(tr) >= 2 and not sc.in_progress():
                    a, b = rng.sample(tr, 2)
                    pos = rng.choice([0, 1, 2])
                    la = sc.read(a); lb = sc.read(b)
                    who = rng.choice(sc.sessions)
                    sc.w.human_ckpt([a])
                    la[min(pos, len(la)):min(pos, len(la))] = [sc.fresh(who) for _ in range(rng.choice([1, 2, 3]))]
                    sc.write(a, la); sc.post_ai(who, a)
                    lb[min(pos, len(lb)):min(pos, len(lb))] = [sc.fresh("human") for _ in range(rng.choice([2, 3, 4]))]
                    sc.write(b, lb)
                    sc.commit_all("X: agent lines in one file, a person's lines at the same numbers in another")
                    base = sc.current_branch() or "main"
                    c = "merged%d.txt" % sc.n
                    side = sc.new_branch_name("rn")
                    sc.g("checkout", "-q", "-b", side)
                    sc.g("mv", "--", b, c); sc.commit_all("side: mv b c")
                    sc.g("checkout", "-q", base)
                    sc.g("mv", "--", a, c); sc.commit_all("main: mv a c")
                    sc.g("merge", "-q", "--no-edit", side)
                    if sc.unmerged() or "MERGE_HEAD" in sc.in_progress():
                        sc.write(c, la + lb)
                        sc.styles[c] = sc.styles.get(a, sc.style(c))
                        sc.write(c, la + lb)
                        sc.g("add", "-A")
                        sc.g("commit", "-q", "--no-edit")
                    if not sc.in_progress():
                        for x in (a, b):
                            if x in sc.files:
                                sc.files.remove(x)
                        sc.files.append(c)
                        sc.must_blame = getattr(sc, "must_blame", []) + [c]
                        renamed = True
                        sc.ops.append("two-renames-merged")
            elif op == "copy":
                sc.commit_all("before-cp")
                f = rng.choice(sc.files)
                nf = "copy%d_%s" % (sc.n, f.replace("/", "_"))
                b = sc.w.read_bytes(f)
                if b is not None:
                    sc.w.write_bytes(nf, b)
                    sc.files.append(nf)
                    if f in sc.styles:
                        sc.styles[nf] = sc.styles[f]
                sc.commit_all("cp")
            elif op == "readd":
                sc.commit_all("before-rm")
                f = rng.choice(sc.files)
                b = sc.w.read_bytes(f)
                if b is not None and f in sc.tracked() and len(sc.tracked()) > 1:
                    sc.g("rm", "-q", "--", f); sc.commit_all("rm")
                    sc.w.write_bytes(f, b); sc.commit_all("re-add")
            else:
                sc.commit_all("pre")
                {"rebase": sc.op_rebase, "cherry": sc.op_cherry_pick, "squash": sc.op_squash_merge, "merge": sc.op_merge}[op]()
            sc.after_step("op %d %s" % (k, op))
            if sc.viol or sc.inconclusive:
                break
        ai_cmp = 0
        osig = set()
        if not sc.viol and not sc.inconclusive and not sc.in_progress():
            sc.commit_all("final")
            commits = list(reversed(sc.w.ogit("rev-list", "--first-parent", "HEAD").split()))
            revs = ["HEAD"] + rng.sample(commits[:-1], min(2, len(commits) - 1))
            cache = {}
            for rev in revs:
                if rev != "HEAD":
                    p = sc.w.git("checkout", "-q", "--detach", rev, plain=True)
                    if p.rc != 0:
                        continue
                tracked = sc.tracked()
                for f in [x for x in getattr(sc, "must_blame", []) if x in tracked] + rng.sample(tracked, min(3, len(tracked))):
                    nl = len(sc.read(f))
                    for opts in option_sets(sc, f, nl, commits):
                        if compare_one(sc, f, opts, "rev=%s" % rev[:10], cache):
                            ai_cmp += 1
                        osig.add(tuple(o for o in opts if o.startswith("-")))
                        if sc.viol:
                            break
                    if sc.viol:
                        break
                if sc.viol:
                    break
        r = C.finish(sc, prof, index, nontrivial=ai_cmp > 0)
        r["sig"] += "|opts=%s|renamed=%s" % (sorted(osig), renamed)
        return r
    finally:
        sc.destroy()


def main(tier, seed, replay=None):
    return C.standard_main("C09", run_case, RULE, "exploration",
                           ["git blame (installed git 2.39.5) is the reference for commit / original line / original path per line",
                            "the CLI takes no revision: earlier revisions are blamed through detached checkouts; -w is not accepted by the CLI; -M/-C/--reverse/--contents are outside the property"],
                           tier, seed, replay, 50, 480)
