"""C17 — authorship logs survive a write/read round trip unchanged (in-process harness)."""
import json

from .. import runner as R
from . import inproc, witnesses
from .c16 import miri_shard

RULE = ("in-process: (3/4) structured logs with 0-20 files, paths assembled from everything a git tree can hold (spaces, tabs, quotes, leading "
        "dash / space, trailing space, unicode, backslash, braces, text that looks like an entry line), arbitrary hash strings, ranges as "
        "arbitrary multisets, prompt records whose messages look like dividers / path lines / JSON fields: serialize -> independent grammar "
        "check (written from the published standard) -> parse -> equal files / hashes / line sets / metadata; textual base-commit remap "
        "(try_remap_base_commit_sha_field and remap_note_content_for_target_commit) must parse back to the same log with the new base; "
        "(1/4) arbitrary text soups for the parser: never panics, never accepts text without a divider line. distinct = (file count, path classes)")


def main(tier, seed, replay=None):
    rep = R.Report("C17", tier, seed, "exploration", RULE,
                   ["structural equality of the round trip; the grammar checker is independent of git-ai's parser",
                    "path classes that are open findings (`---`, newline, `\"base_commit_sha\"` inside a name) are excluded by trigger flags"])
    flags = sorted(R.trigger_off_flags("C17"))
    if replay:
        j = json.load(open(replay))
        pr = j["payload"]["probe"]
        r = inproc.shard(pr[0], pr[1], pr[2], pr[3:])
        for v in (r.get("violations") or [])[:3]:
            rep.direct_violation(v.get("kind"), dict(probe=pr, violation=v))
        rep.evaluations = r.get("cases", 1)
        return rep.finish(min_nontrivial=0)
    witnesses.replay_for(rep, "C17")
    per = 3500 if tier == "quick" else 20000
    res, distinct = inproc.run_shards(rep, "c17", seed, per, flags, R.budget(tier, 30, 300), "C17")
    rep.sigs = set(range(distinct))
    rep.extra["trigger_flags_off"] = flags
    if tier == "thorough":
        miri_shard(rep, "c17", seed, 30, flags)
    return rep.finish()
