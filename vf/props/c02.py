"""C02 — attribution follows code through history rewriting; aborted / failing / dry-run operations change nothing."""
import os
import random

from ..ops import Hist
from . import common as C

RULE = ("random commit graphs; one or two rewrite operations per script from {rebase plain/--onto/-i (reorder, squash, fixup, drop, edit, "
        "reword) with conflicts resolved+continued / skipped / aborted, cherry-pick one/range/-n, amend, merge --squash, reset soft/mixed + "
        "recommit, stash push -> (upstream commit) -> pop/apply, switch/checkout carrying work (also -m), merge ff/no-ff/conflict}, upstream "
        "changes above/below/interleaved/other file; closed by commit-everything; final: every surviving unambiguous AI line is AI(S) in blame "
        "and no AI claim contradicts the ledger (after every step); aborted/failing/dry-run ops: notes content digest and the semantic "
        "projection of the working logs must be identical before/after. non-trivial = a rewrite op completed with AI lines at stake; "
        "distinct = (profile, op sequence incl. conflict decisions) signatures")

ALL_OPS = ["rebase", "rebase", "cherry", "amend", "squash", "reset", "stash", "switch", "merge", "noop", "ci"]


def do_noop_ops(sc):
    """Aborted / failing / dry-run operations must leave notes and pending attribution exactly as they were."""
    rng = sc.rng
    before = (sc.notes_digest(), sc.pending_digest())
    kind = rng.choice(["dry-run", "failing-hook", "bad-rebase", "bad-cherry", "commit-nothing", "merge-abort", "rebase-abort"])
    if kind == "dry-run":
        sc.g("add", "-A")
        sc.g("commit", "--dry-run")
        sc.g("reset", "-q")
    elif kind == "failing-hook":
        hp = os.path.join(sc.gitdir(), "hooks", "pre-commit")
        os.makedirs(os.path.dirname(hp), exist_ok=True)
        with open(hp, "w") as f:
            f.write("#!/bin/sh\nexit 1\n")
        os.chmod(hp, 0o755)
        sc.g("add", "-A")
        p = sc.g("commit", "-q", "-m", "will fail")
        os.remove(hp)
        sc.g("reset", "-q")
    elif kind == "bad-rebase":
        sc.g("rebase", "no-such-branch")
    elif kind == "bad-cherry":
        sc.g("cherry-pick", "no-such-ref")
    elif kind == "commit-nothing":
        sc.g("commit", "-q", "-m", "nothing staged")
    elif kind in ("merge-abort", "rebase-abort"):
        # build a guaranteed conflict on a scratch branch, start the op, abort it
        if sc.w.ogit("status", "--porcelain").strip():
            return None   # needs a clean tree; skip
        base = sc.current_branch() or "main"
        f = sc.files[0]
        lines = sc.read(f)
        if not lines:
            return None
        br = sc.new_branch_name("cf")
        sc.g("checkout", "-q", "-b", br)
        l2 = list(lines); l2[0] = sc.fresh("human", hostile=False); sc.write(f, l2); sc.commit_all("side")
        sc.g("checkout", "-q", base)
        l3 = list(lines); l3[0] = sc.fresh("human", hostile=False); sc.write(f, l3); sc.commit_all("mainside")
        before = (sc.notes_digest(), sc.pending_digest())
        if kind == "merge-abort":
            sc.g("merge", "-q", "--no-edit", br)
            if "MERGE_HEAD" in sc.in_progress():
                sc.g("merge", "--abort")
        else:
            sc.g("checkout", "-q", br)
            sc.g("rebase", base)
            if sc.in_progress():
                sc.g("rebase", "--abort")
            sc.g("checkout", "-q", base)
    if kind == "commit-nothing" and sc.log and sc.log[-1][-1] == "rc=0":
        return None   # something was staged after all (e.g. after reset --soft): a real commit, not a no-op
    sc.ops.append("noop:" + kind)
    after = (sc.notes_digest(), sc.pending_digest())
    sc.stats["noop_ops_compared"] += 1
    if before[0] != after[0]:
        sc.violation("C02/notes-changed-by-noop", op=kind)
    if before[1] != after[1]:
        sc.violation("C02/pending-changed-by-noop", op=kind, pending=sc.pending_effective())
    return kind


def run_case(case):
    seed, index, flags_off = case["seed"], case["index"], case.get("flags_off", [])
    prng = random.Random("%s:C02p:%s" % (seed, index))
    prof = C.base_profile(prng, flags_off, hostile=prng.random() < 0.5)
    focus = prng.random() < 0.25 and not case.get("ops")
    if focus:
        # a quarter of the cases concentrate on one file: every rewritten commit and the upstream change meet in the same file,
        # with edit positions biased to its first and last lines
        prof["files"] = 1
    sc = Hist("C02", seed, index, prof)
    ops_pool = case.get("ops") or [o for o in ALL_OPS if ("op_" + o) not in flags_off]
    if focus:
        ops_pool = ["rebase", "rebase", "cherry", "squash", "amend", "reset", "stash"]
    edge = focus and prng.random() < 0.6
    if edge:
        # same-file rebases / cherry-picks of several commits with single-line edits at the very first / last line of the file
        sc.profile["edge_bias"] = True
        ops_pool = ["rebase", "rebase", "cherry"]
        sc.profile["upstream_where"] = "same"
    try:
        rng = sc.rng
        C.setup_repo(sc, 3, 14)
        # some committed AI history first
        for _ in range(rng.choice([1, 2])):
            for _ in range(rng.choice([1, 2, 3])):
                sc.do_edit()
            sc.commit_all("hist")
        sc.after_step("hist")
        done = 0
        for k in range(rng.choice([1, 1, 2])):
            op = rng.choice(ops_pool)
            where = "op %d %s" % (k, op)
            if op in ("rebase", "cherry", "squash", "merge", "ci"):
                # clean tree needed
                sc.commit_all("pre")
                if op == "rebase" and rng.random() < 0.15:
                    out = sc.op_rebase_delete_recreate()
                elif op == "cherry" and rng.random() < 0.2:
                    out = sc.op_cherry_pick_concluded_by_commit()
                elif op == "cherry" and (rng.random() < 0.25 or os.environ.get("VERIF_C02_FORCE") == "refused"):
                    out = sc.op_cherry_pick_refused_command_while_stopped()
                else:
                    out = {"rebase": sc.op_rebase, "cherry": sc.op_cherry_pick, "squash": sc.op_squash_merge, "merge": sc.op_merge, "ci": sc.op_ci_rewrite}[op]()
            elif op == "noop":
                if rng.random() < 0.6:
                    sc.do_edit()   # pending AI/human work that must stay exactly as it is
                do_noop_ops(sc)
            elif op == "amend":
                # finding D12: a person's unreported edit of a file with committed AI lines, then --amend, keeps stale line numbers;
                # while it is open the work amended into a commit is agent-written only
                ai_only = not sc.profile.get("amend_human_edit", True)
                who = (lambda: rng.choice(sc.sessions)) if ai_only else (lambda: None)
                for _ in range(rng.choice([1, 2])):
                    sc.do_edit()
                sc.commit_all("to-amend")
                for _ in range(rng.choice([1, 2])):
                    sc.do_edit(author=who(), kinds=["ins", "rep", "mod"] if ai_only else None)
                sc.op_amend()
            else:
                # uncommitted work at stake
                if op == "reset":
                    sc.begin_undoable()
                for _ in range(rng.choice([1, 2])):
                    sc.do_edit()
                if op == "reset":
                    sc.commit_all("to-undo")
                    if rng.random() < 0.5:
                        sc.do_edit()
                    sc.op_reset(mode=rng.choice(["--soft", "--mixed"]))
                elif op == "stash":
                    sc.op_stash()
                elif op == "switch":
                    sc.op_switch_carry()
            done += 1
            sc.after_step(where)
            if sc.viol or sc.inconclusive:
                break
        if not sc.viol and not sc.inconclusive:
            if sc.in_progress():
                sc.inconclusive = "operation still in progress: %s" % sc.in_progress()
            else:
                sc.commit_all("final")
                sc.after_step("final")
                sc.check_blame_tip("final", rule="C02")
        return C.finish(sc, prof, index, nontrivial=done > 0 and sc.stats["ai_lines_expected"] > 0)
    finally:
        sc.destroy()


def run_matrix(rep, tier):
    """The deterministic (rewrite operation x upstream position x agent-line position) table; see c02_matrix.py."""
    from . import c02_matrix as M
    from .. import runner as R
    known = [e for e in R.load_known("C02") if e.get("status") == "open" and e.get("cells2")]
    cells = M.cells()
    if tier != "thorough":
        cells = [c for c in cells if c.endswith("|middle") or c.endswith("|last")]     # top / bottom positions run in the thorough tier
    res = R.run_pool(M.run_cell, [dict(cell=c) for c in cells], 300 if tier != "thorough" else 900)
    by_finding = {}
    failing = []
    for r in res:
        rep.evaluations += 1
        for k, v in (r.get("stats") or {}).items():
            if isinstance(v, (int, float)):
                rep.counters[k] += v
        rep.counters["matrix_cells_run"] += 1
        if r.get("inconclusive"):
            rep.inconclusive.append(dict(case=r.get("case"), why=str(r["inconclusive"])[:300]))
            continue
        if not r.get("applicable"):
            rep.counters["matrix_cells_not_applicable"] += 1
            continue
        rep.sigs.add(r["sig"])
        if not r.get("viol"):
            rep.counters["matrix_cells_held"] += 1
            continue
        kinds = sorted({v["kind"] for v in r["viol"]})
        e = M.classify(r["cell"], known)
        if e is not None and all(k in e.get("cell_kinds2", []) for k in kinds):
            by_finding.setdefault(e["id"], []).append(r["cell"])
            rep.counters["matrix_cells_failing_known"] += 1
        else:
            failing.append(r["cell"])
            for k in kinds:
                rep.viol_kinds[k] += 1
            if len(rep.violations) < 8:
                rep.violations.append((kinds[0], rep.write_replay(r, "matrix")))
    for fid, cs in sorted(by_finding.items()):
        rep.known_finding("%s matrix cells (operation|upstream change|agent-line position) failing as listed: %s" % (fid, " ".join(sorted(cs))))
    rep.extra["matrix"] = dict(cells_total=len(cells), known_failing={k: sorted(v) for k, v in by_finding.items()}, unlisted_failing=failing)
    if len(res) < len(cells):
        rep.inconclusive.append(dict(case="matrix", why="only %d of %d cells finished inside the budget" % (len(res), len(cells))))


ASSUMPTIONS = ["ledger oracle (content identity survives every rewrite); conflicts are resolved with kept or fresh keys, never by retyping AI content",
               "octopus merges, submodules, --rebase-merges not generated",
               "bounded-exhaustive part: rewrite operation x upstream-change position x agent-line position table (vf/props/c02_matrix.py); cells in which "
               "git itself stops on a conflict are counted as not applicable"]


def main(tier, seed, replay=None):
    ops = os.environ.get("VERIF_C02_OPS")
    if replay:
        import json
        from .. import runner as R
        j = json.load(open(replay))
        if (j.get("case") or {}).get("cell"):
            from . import c02_matrix as M
            rep = R.Report("C02", tier, seed, "exploration", RULE, ASSUMPTIONS)
            r = R._worker((M.run_cell, j["case"]))
            for l in r.get("log") or []:
                R.log("  ", l)
            rep.add_results([r])
            return rep.finish(min_nontrivial=0)
    return C.standard_main("C02", run_case, RULE, "exploration", ASSUMPTIONS,
                           tier, seed, replay, 60, 600, extra_case=(lambda i: dict(ops=ops.split(","))) if ops else None,
                           before_pool=None if (ops or replay) else (lambda rep: run_matrix(rep, tier)))
