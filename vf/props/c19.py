"""C19 — commit statistics add up and agree with the note and the diff."""
import json
import os
import random

from ..ops import Hist
from . import common as C

RULE = ("for every commit of generated histories (root, ordinary, partial, amended, rebased, squashed, merge commits; commits touching "
        "default-ignored files such as Cargo.lock / *.min.js / __snapshots__ and binary files; several sessions per file) "
        "`git-ai stats <sha> --json` is compared with: own sum over `git show --numstat` (neutral config) minus the files ignored by construction; "
        "|lines added per own `diff -U0` parser ∩ AI lines of the independently parsed note|; and the identities human+accepted=added, "
        "ai_additions=accepted+mixed<=added, per-tool sums = totals. non-trivial = a commit with ai_accepted>0 or an ignored/binary/merge commit; "
        "distinct = (commit kind, #files, #sessions, has-ignored, has-binary) signatures")

IGNORED = ["Cargo.lock", "pkg/yarn.lock", "web/app.min.js", "tests/__snapshots__/a.snap", "vendor/x/lib.c", "api.generated.ts", "go.sum",
           "node_modules/left-pad/index.js", "tests/__snapshots__/util.py", "pkg/vendor/acme/main.rs", "web/node_modules/x/y/style.css",
           # ignored files whose paths git prints C-quoted in --numstat output (non-ASCII under the default core.quotePath; a double quote always)
           "föo.lock", "dír/package-lock.json", 'we"ird/yarn.lock']
# files ignored because of the DIRECTORY they are in, each with a counted file of the same base name elsewhere in the tree
TWINS = {"vendor/x/lib.c": "src/lib.c", "node_modules/left-pad/index.js": "src/index.js", "tests/__snapshots__/util.py": "lib/util.py",
         "pkg/vendor/acme/main.rs": "pkg/src/main.rs", "web/node_modules/x/y/style.css": "web/style.css"}


def own_numstat(sc, sha):
    out = sc.w.ogit("-c", "diff.renames=false", "show", "--numstat", "--format=", "--no-renames", "--no-ext-diff", "--no-textconv", "-z", sha)
    add = dele = 0
    for ent in out.split("\0"):
        if not ent.strip("\n"):
            continue
        parts = ent.lstrip("\n").split("\t", 2)
        if len(parts) < 3:
            continue
        a, d, path = parts
        if path in IGNORED:
            continue
        if a.isdigit():
            add += int(a)
        if d.isdigit():
            dele += int(d)
    return add, dele


def check_commit_stats(sc, sha):
    p = sc.w.ga("stats", sha, "--json")
    lines = [l for l in p.stdout.strip().split("\n") if l.strip().startswith("{")]
    try:
        st = json.loads(lines[-1])
    except (IndexError, ValueError):
        sc.violation("C19/stats-unparsable", commit=sha, rc=p.rc, out=p.stdout[-300:], err=p.stderr[-300:])
        return None
    sc.stats["commits_checked"] += 1
    parents = sc.w.ogit("rev-list", "--parents", "-n1", sha).split()[1:]
    add, dele = own_numstat(sc, sha)
    if (st["git_diff_added_lines"], st["git_diff_deleted_lines"]) != (add, dele):
        sc.violation("C19/numstat", commit=sha, stats=(st["git_diff_added_lines"], st["git_diff_deleted_lines"]), own=(add, dele))
    acc = 0
    nsess = 0
    note = None
    if len(parents) <= 1:
        added = sc.diff_added(sha)
        try:
            note = sc.nr.note_for(sha)
        except Exception:
            note = None
        if note:
            for f, sess in note.files.items():
                if f in IGNORED:
                    continue
                nsess = max(nsess, len(sess))
                listed = set()
                for h, ls in sess.items():
                    listed |= ls
                acc += len(listed & added.get(f, set()))
    if st["ai_accepted"] != acc:
        sc.violation("C19/accepted", commit=sha, stats=st["ai_accepted"], own=acc, parents=len(parents))
    if st["human_additions"] + st["ai_accepted"] != st["git_diff_added_lines"]:
        sc.violation("C19/human+accepted!=added", commit=sha, st={k: st[k] for k in ("human_additions", "ai_accepted", "git_diff_added_lines", "mixed_additions", "ai_additions")})
    if st["ai_additions"] != st["ai_accepted"] + st["mixed_additions"]:
        sc.violation("C19/ai_additions!=accepted+mixed", commit=sha, st={k: st[k] for k in ("ai_additions", "ai_accepted", "mixed_additions")})
    if st["ai_additions"] > st["git_diff_added_lines"]:
        sc.violation("C19/ai_additions>added", commit=sha, st={k: st[k] for k in ("ai_additions", "git_diff_added_lines")})
    tb = st.get("tool_model_breakdown", {})
    # finding D63 (by call site): the commit-level mixed_additions is capped at (added - accepted) while the per-tool figures are not;
    # the cap is active exactly when the prompt records' overridden-line counters add up to more than that
    cap_active = False
    try:
        overridden = sum(int(p.get("overriden_lines", 0)) for p in (note.meta or {}).get("prompts", {}).values()) if (len(parents) <= 1 and note) else 0
        cap_active = overridden > max(0, st["git_diff_added_lines"] - st["ai_accepted"])
    except (AttributeError, TypeError, ValueError):
        pass
    for k in ("ai_additions", "mixed_additions", "ai_accepted", "total_ai_additions", "total_ai_deletions"):
        if sum(t.get(k, 0) for t in tb.values()) != st[k]:
            if cap_active and k in ("ai_additions", "mixed_additions") and not sc.profile.get("stats_breakdown_under_cap", True):
                sc.stats["d63_instances(breakdown of %s exceeds the capped total)" % k] += 1
                continue
            sc.violation("C19/breakdown-" + k, commit=sha, total=st[k], parts={n: t.get(k, 0) for n, t in tb.items()}, cap_active=cap_active)
    return dict(acc=acc, parents=len(parents), nsess=nsess, added=add)


def inject_overlap(sc):
    """Rewrite one note so that a second session lists lines the first one already lists (as amend/squash merges can produce):
    a line attributed twice still counts once."""
    mapping = sc.nr.mapping()
    for sha in sc.w.ogit("rev-list", "HEAD").split():
        ents = mapping.get(sha)
        if not ents:
            continue
        text = sc.nr.blob(ents[0][0])
        try:
            from .. import notes as N
            note = N.parse_note(text)
        except Exception:
            continue
        cand = [(f, h, ls) for f, d in note.files.items() for h, ls in d.items() if len(ls) >= 1 and f not in IGNORED]
        if not cand:
            continue
        f, h, ls = cand[0]
        lo = min(ls)
        extra_hash = "aaaaaaaaaaaaaaaa"
        head, _, meta = text.partition("\n---\n")
        out = []
        pathline = '"%s"' % f if (" " in f or "\t" in f) else f
        for ln in head.split("\n"):
            out.append(ln)
            if ln == pathline:
                out.append("  %s %d" % (extra_hash, lo))
        m = json.loads(meta)
        m["prompts"][extra_hash] = dict(m["prompts"][h])
        m["prompts"][extra_hash]["agent_id"] = dict(tool="tool", id="overlap", model="m")
        new = "\n".join(out) + "\n---\n" + json.dumps(m, indent=2)
        sc.w.ogit("-c", "user.name=inject", "-c", "user.email=i@x", "notes", "--ref=ai", "add", "-f", "-F", "-", sha, input=new.encode(), check=True)
        sc.nr._blob.clear()
        sc.stats["overlap_injected"] += 1
        sc.ops.append("inject-overlap")
        return


def inject_widened_range(sc):
    """Rewrite one note so that a session's two separate ranges become ONE range that also covers the lines in between, which the
    commit did not add (the cumulative notes written by the full replay of a rebase have this shape): accepted lines are still the
    lines the commit added."""
    from .. import notes as N
    mapping = sc.nr.mapping()
    for sha in sc.w.ogit("rev-list", "HEAD").split():
        ents = mapping.get(sha)
        if not ents or len(sc.w.ogit("rev-list", "--parents", "-n1", sha).split()) != 2:
            continue
        text = sc.nr.blob(ents[0][0])
        try:
            note = N.parse_note(text)
        except Exception:
            continue
        added = sc.diff_added(sha)
        for f, d in note.files.items():
            if f in IGNORED or " " in f or "\t" in f or '"' in f:
                continue
            nl = len(sc.show_lines(sha, f) or [])
            for h, ls in d.items():
                mine = sorted(i for i in ls if i in added.get(f, ()))
                gaps = [(a, b) for a, b in zip(mine, mine[1:]) if b - a > 1 and any(i not in added.get(f, ()) for i in range(a + 1, b))
                        and not any(i in l2 for h2, l2 in d.items() if h2 != h for i in range(a, b + 1))]
                if not gaps or max(ls) > nl:
                    continue
                a, b = gaps[0]
                new_ls = sorted(set(ls) | set(range(a, b + 1)))
                # re-serialise this entry's ranges
                parts, i = [], 0
                while i < len(new_ls):
                    j = i
                    while j + 1 < len(new_ls) and new_ls[j + 1] == new_ls[j] + 1:
                        j += 1
                    parts.append(str(new_ls[i]) if i == j else "%d-%d" % (new_ls[i], new_ls[j]))
                    i = j + 1
                head, _, meta = text.partition("\n---\n")
                out, cur = [], None
                for ln in head.split("\n"):
                    if not ln.startswith("  "):
                        cur = ln
                        out.append(ln)
                    elif cur == f and ln.startswith("  " + h + " "):
                        out.append("  %s %s" % (h, ",".join(parts)))
                    else:
                        out.append(ln)
                new = "\n".join(out) + "\n---\n" + meta
                sc.w.ogit("-c", "user.name=inject", "-c", "user.email=i@x", "notes", "--ref=ai", "add", "-f", "-F", "-", sha, input=new.encode(), check=True)
                sc.nr._blob.clear()
                sc.stats["widened_range_injected"] += 1
                sc.ops.append("inject-widened-range")
                return True
    return False


def run_case(case):
    seed, index, flags_off = case["seed"], case["index"], case.get("flags_off", [])
    prng = random.Random("%s:C19p:%s" % (seed, index))
    prof = C.base_profile(prng, flags_off)
    prof["multi_tool"] = prng.random() < 0.6      # sessions of different tools / models: the per-tool breakdown has several entries
    sc = Hist("C19", seed, index, prof)
    try:
        rng = sc.rng
        files = sc.choose_files()
        for f in files:
            sc.write(f, [sc.fresh("human", hostile=False) for _ in range(rng.randrange(2, 10))])
        if rng.random() < 0.3:
            sc.do_edit(author=rng.choice(sc.sessions), f=files[0], kinds=["ins"])   # AI lines in the root commit
        sc.commit_all("init")
        extra = []
        has_ignored = rng.random() < 0.5
        has_binary = rng.random() < 0.3
        twin_pair = None
        if has_ignored:
            extra = rng.sample(IGNORED, rng.choice([1, 2]))
            if rng.random() < 0.5:
                # an ignored directory holds a file with the same base name as a counted file, both changed by the same commits
                ign = rng.choice(sorted(TWINS))
                extra = [ign, TWINS[ign]] if rng.random() < 0.5 else [TWINS[ign], ign]
                twin_pair = (ign, TWINS[ign])
            for f in extra:
                sc.write(f, [sc.fresh("human", hostile=False) for _ in range(3)])
        if has_binary:
            sc.w.write_bytes("blob.bin", bytes(rng.randrange(256) for _ in range(300)) + b"\0\0")
        kinds = []
        for ci in range(rng.choice([2, 3, 4])):
            for _ in range(rng.randrange(1, 5)):
                pool = files + extra
                sc.do_edit(f=rng.choice(pool))
            if twin_pair and rng.random() < 0.7:
                for f in rng.sample(twin_pair, 2):
                    sc.do_edit(f=f, kinds=["ins", "ins", "rep", "del"])
                sc.stats["twin_name_commits"] += 1
            if has_binary and rng.random() < 0.5:
                sc.w.write_bytes("blob.bin", bytes(rng.randrange(256) for _ in range(200)) + b"\0")
            k = rng.choice(["all", "all", "files", "hunks", "amend", "merge", "squash", "rebase", "override-partial"])
            kinds.append(k)
            if k == "override-partial":
                # two agents (different tools when multi_tool) add lines to two files; a person rewrites some of one agent's still
                # uncommitted lines in the second file; only the first file is committed, the rest later: the overridden-lines counter
                # of the prompt record is larger than what this commit's diff leaves room for
                tr = [x for x in files if x in sc.tracked()]
                if len(tr) >= 2 and len(sc.sessions) >= 2:
                    f1, f2 = rng.sample(tr, 2)
                    s1, s2 = rng.sample(sc.sessions, 2)
                    for who in (s1, s2):
                        sc.do_edit(author=who, f=f1, kinds=["ins"])
                        sc.do_edit(author=who, f=f2, kinds=["ins"])
                    lines = sc.read(f2)
                    mine = [i for i, l in enumerate(lines) if sc.ledger.expected(l) == s1 and not sc.ledger.is_decoy(l)][:rng.choice([1, 2, 3])]
                    if mine:
                        if f2 in sc.pending_initial_files() and not sc.profile["human_edit_on_pending_unreported"]:
                            sc.w.human_ckpt([f2])
                        for i in mine:
                            lines[i] = sc.fresh("human", hostile=False)
                        sc.write(f2, lines)
                        sc.log.append(["edit", f2, "human", "override %d lines of %s" % (len(mine), s1)])
                    sc.g("add", "--", f1); sc.g("commit", "-q", "-m", "first file only")
                    sc.ops.append("commit:override-partial")
                sc.commit_all("rest")
            elif k == "files":
                sc.op_partial_commit()
            elif k == "hunks":
                sc.op_hunk_commit()
            elif k == "amend":
                sc.commit_all("to-amend")
                sc.do_edit(author=rng.choice(sc.sessions), kinds=["ins", "rep"])
                sc.op_amend()
            elif k in ("merge", "squash", "rebase"):
                sc.commit_all("pre")
                {"merge": lambda: sc.op_merge(kind=rng.choice(["no-ff", "ff"])), "squash": sc.op_squash_merge, "rebase": sc.op_rebase}[k]()
            else:
                sc.commit_all("c%d" % ci)
            sc.after_step("commit %d %s" % (ci, k))
            if sc.viol or sc.inconclusive:
                break
        nontrivial = False
        sigs = set()
        if not sc.viol and not sc.inconclusive and not sc.in_progress():
            sc.commit_all("final")
            if rng.random() < 0.4 and sc.profile.get("overlap_injection", True):
                inject_overlap(sc)
            elif rng.random() < 0.6:
                inject_widened_range(sc)
            for sha in C.all_branch_commits(sc):
                info = check_commit_stats(sc, sha)
                if info:
                    if info["acc"] > 0 or info["parents"] != 1:
                        nontrivial = True
                    sigs.add((info["parents"], min(info["nsess"], 3), info["acc"] > 0, info["added"] > 0))
                if sc.viol:
                    break
        r = C.finish(sc, prof, index, nontrivial=nontrivial)
        r["sig"] = "%s|%s|ign=%s|bin=%s|twin=%s|%s" % (kinds, sorted(sigs), has_ignored, has_binary, bool(twin_pair), prof["files"])
        return r
    finally:
        sc.destroy()


def main(tier, seed, replay=None):
    return C.standard_main("C19", run_case, RULE, "exploration",
                           ["ignored files are decided by construction (a fixed list of names matching git-ai's default patterns), not by re-implementing the matcher",
                            "time_waiting_for_ai has no independent source and is not checked"],
                           tier, seed, replay, 50, 480)
