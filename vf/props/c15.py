"""C15 — the note-remapping shortcut gives the same answer as full recomputation (differential, H-fast switch + H-trace)."""
import random

from ..ops import Hist
from . import common as C

RULE = ("each case runs one seeded script containing rebases (plain / --onto / -i reword, 1-3 commits) and cherry-picks (one / range) twice in "
        "fresh worlds: normally, and with GIT_AI_VERIF_DISABLE_FAST_PATH=1 (both shortcuts decline, full replay runs); commit ids coincide (logical "
        "clock). Ranges are drawn so that the shortcut's precondition holds for all pairs (upstream touched other files), for none, and for SOME "
        "pairs only (upstream touched a file of one commit of the range; a commit of the range without note), and ranges that shrink (a commit of the range is already applied upstream and dropped by the rebase). For every rewritten commit (from the "
        "H-trace notes_add_batch events) the two notes are compared: projected rule (line sets restricted to the lines the commit adds, sessions "
        "owning such lines, base_commit_sha) on ALL ranges; a copied note may not list lines that its commit does not add and that the replay does not list either; strict rule (files, sessions, full line sets, prompt ids) is an open "
        "finding (D16: the full replay writes cumulative notes) and only counted while it is open. The H-trace says whether the shortcut was taken; a case in which it never "
        "was is counted but not non-trivial. distinct = (op sequence, shortcut taken/declined pattern)")


def many_paths_rebase(sc):
    """A rewritten range whose commits carry agent lines in MORE THAN 1000 files (git-ai switches from pathspec arguments to
    post-filtering there): one agent commit creates 1001-1300 small files and adds lines to a tracked file F; upstream changes F (the
    precondition fails for the only pair: the shortcut must decline), one of the generated files, or an unrelated file (it holds)."""
    rng = sc.rng
    base = sc.current_branch() or "main"
    feat = sc.new_branch_name("mp")
    who = rng.choice(sc.sessions)
    tracked = [f for f in sc.files if f in sc.tracked()]
    F = rng.choice(tracked)
    sc.g("checkout", "-q", "-b", feat)
    n = rng.choice([1001, 1005, 1300])
    d = rng.choice(["gen", "zz gen", "0gen"])       # sorts after / before the ordinary files
    names = ["%s/f%04d.txt" % (d, i) for i in range(n)]
    two = rng.random() < 0.4
    first = names[:n // 2] if two else names
    for chunk in ([first, names[n // 2:]] if two else [first]):
        sc.w.human_ckpt(chunk + [F])
        for f in chunk:
            sc.write(f, [sc.fresh(who, hostile=False) for _ in range(2)])
        lines = sc.read(F)
        pos = len(lines)                 # at the end: the upstream change goes to the top, far enough not to conflict
        lines[pos:pos] = sc.new_lines(who, rng.choice([1, 2]), lines)
        sc.write(F, lines)
        t = sc.tool.get(who, ("tool", "m"))
        sc.w.ai_ckpt(who, chunk + [F], messages=sc.transcript(who), tool=t[0], model=t[1])
        sc.log.append(["edit", "%d files under %s/ and %s" % (len(chunk), d, F), who, "create+ins@%d" % pos])
        sc.stats["edits"] += 1; sc.stats["ai_edits"] += 1
        sc.commit_all("agent commit over %d files" % len(chunk))
    sc.g("checkout", "-q", base)
    where = rng.choice(["F", "F", "generated", "other"])
    if (sc.index // 24) % 2 == 0:
        where = "F"         # every other scale case: the only pair fails the precondition in F alone, the shortcut must decline
    if where == "F":
        lines = sc.read(F)
        lines[0:0] = [sc.fresh("human", hostile=False)]
        sc.write(F, lines)
        sc.log.append(["edit", F, "human", "ins@0+1 (upstream)"])
    elif where == "generated":
        # upstream creates one of the names first (a person's line); the rebase then conflicts or merges - aborted if it stops
        sc.write(names[rng.randrange(n)], [sc.fresh("human", hostile=False)])
    else:
        sc.write("up%d.txt" % sc.n, [sc.fresh("human", hostile=False) for _ in range(2)])
    sc.commit_all("upstream change: " + where)
    sc.g("checkout", "-q", feat)
    sc.g("rebase", base)
    sc.ops.append("rebase:many-paths:%s:%d%s" % (where, n, ":two" if two else ""))
    if sc.in_progress():
        sc.finish_in_progress("rebase", decide="abort")
        sc.g("checkout", "-q", "-f", base)
    else:
        sc.g("checkout", "-q", base); sc.g("merge", "-q", "--ff-only", feat)
    sc.blame_files = tracked + rng.sample(names, 6)


def modify_delete_rebase(sc, cherry=False):
    """A pair whose AI-touched file exists in the original commit but NOT in the rewritten one: commit A1 has agent edits of F and H,
    A2 has an agent edit of F again; upstream deletes F. The rebase (or the cherry-pick of A1) stops on the modify/delete conflict; A1 is
    resolved with `git rm F` (the commit survives through H), A2 by keeping the file. The precondition fails for A1: no copying."""
    rng = sc.rng
    base = sc.current_branch() or "main"
    tr = [f for f in sc.files if f in sc.tracked() and sc.read(f)]
    if len(tr) < 2:
        return sc.op_rebase(kind="plain")
    F, H = rng.sample(tr, 2)
    who = rng.choice(sc.sessions)
    feat = sc.new_branch_name("md")
    sc.g("checkout", "-q", "-b", feat)
    sc.do_edit(author=who, f=F, kinds=["ins"]); sc.do_edit(author=who, f=H, kinds=["ins"]); sc.commit_all("md1: agent edits F and H")
    a1 = sc.head()
    sc.do_edit(author=who, f=F, kinds=["ins"]); sc.commit_all("md2: agent edits F again")
    sc.g("checkout", "-q", base)
    sc.g("rm", "-q", "--", F); sc.commit_all("upstream deletes F")
    if cherry:
        sc.g("cherry-pick", a1)
        sc.ops.append("cherry-pick:modify-delete")
        if sc.in_progress() or sc.unmerged():
            sc.g("rm", "-q", "--", F)
            sc.g("-c", "core.editor=true", "cherry-pick", "--continue")
        if sc.in_progress():
            sc.g("cherry-pick", "--abort"); sc.inconclusive = "cherry-pick did not finish"
        return
    sc.g("checkout", "-q", feat)
    sc.g("rebase", base)
    sc.ops.append("rebase:modify-delete")
    step = 0
    while sc.in_progress() and step < 4:
        step += 1
        if step == 1:
            sc.g("rm", "-q", "--", F)                  # A1: the file stays deleted
        else:
            sc.g("add", "--", F)                       # A2: keep the branch's version of the file
        sc.g("-c", "core.editor=true", "rebase", "--continue")
    if sc.in_progress():
        sc.g("rebase", "--abort"); sc.g("checkout", "-q", "-f", base); sc.inconclusive = "rebase did not finish"
        return
    sc.g("checkout", "-q", base); sc.g("merge", "-q", "--ff-only", feat)


def script(sc):
    rng = sc.rng
    C.setup_repo(sc, 3, 10)
    if sc.index % 24 == 11 or sc.index % 24 == 17:
        # a tracked file that the rewritten commit no longer has (modify/delete conflict resolved by deleting)
        sc.commit_all("pre")
        modify_delete_rebase(sc, cherry=(sc.index % 24 == 17))
        sc.after_step("modify-delete")
        if sc.viol or sc.inconclusive or sc.in_progress():
            return
        sc.commit_all("final")
        sc.after_step("final")
        sc.check_blame_tip("final", rule="C15", complete=False)
        return
    if sc.index % 24 == 5:
        # scale case (a few per run): the range tracks more than 1000 agent-touched paths
        sc.commit_all("pre")
        many_paths_rebase(sc)
        sc.after_step("many-paths")
        if sc.viol or sc.inconclusive or sc.in_progress():
            return
        sc.commit_all("final")
        sc.after_step("final")
        sc.check_blame_tip("final", rule="C15", files=[f for f in sc.blame_files if f in sc.tracked()])
        return
    for _ in range(rng.choice([1, 2])):
        sc.do_edit()
    sc.commit_all("hist")
    for k in range(rng.choice([1, 2])):
        op = rng.choice(["rebase", "rebase", "cherry", "partial-range", "dropped-duplicate", "partial-cherry"])
        sc.commit_all("pre")
        if op == "rebase":
            sc.op_rebase(kind=rng.choice(["plain", "plain", "onto", "interactive"]))
        elif op == "cherry":
            sc.op_cherry_pick(kind=rng.choice(["one", "range"]))
        elif op == "dropped-duplicate":
            dropped_duplicate_rebase(sc)
        elif op == "partial-cherry":
            partial_precondition_cherry_pick(sc)
        else:
            partial_precondition_rebase(sc)
        sc.after_step("op %d %s" % (k, op))
        if sc.viol or sc.inconclusive:
            return
    if sc.in_progress():
        sc.inconclusive = "in progress"
        return
    sc.commit_all("final")
    sc.after_step("final")
    sc.check_blame_tip("final", rule="C15")


def partial_precondition_rebase(sc):
    """A range for which the shortcut's precondition holds for SOME pairs only: 2-3 commits on distinct files, upstream inserts into
    the file of exactly one of them (so that blobs differ for that pair only), optionally one commit of the range is human-only."""
    rng = sc.rng
    base = sc.current_branch() or "main"
    feat = sc.new_branch_name("pp")
    files = [f for f in sc.files if f in sc.tracked()]
    rng.shuffle(files)
    n = min(len(files), rng.choice([2, 3]))
    if n < 2:
        return sc.op_rebase(kind="plain")
    who = rng.choice(sc.sessions)
    sc.g("checkout", "-q", "-b", feat)
    human_only = rng.randrange(n) if rng.random() < 0.3 else -1
    for i in range(n):
        sc.do_edit(author="human" if i == human_only else who, f=files[i], kinds=["ins"])
        sc.commit_all("pp%d" % i)
    sc.g("checkout", "-q", base)
    k = rng.randrange(n)
    sc.do_edit(author="human", f=files[k], kinds=["ins"])
    sc.commit_all("upstream touches file of commit %d" % k)
    sc.g("checkout", "-q", feat)
    sc.g("rebase", base)
    sc.ops.append("rebase:partial-precondition")
    if sc.in_progress():
        sc.finish_in_progress("rebase", decide="abort")
        sc.g("checkout", "-q", "-f", base)
    else:
        sc.g("checkout", "-q", base); sc.g("merge", "-q", "--ff-only", feat)


def partial_precondition_cherry_pick(sc):
    """A cherry-picked range for which the shortcut's precondition fails for an EARLIER pair but holds for the LAST one: the last
    source commit inserts two lines at the top of file F (plus an agent edit elsewhere), and the target branch already contains exactly
    those two lines (a partial back-port). Picking the first commit gives a different F blob than its source, picking the last one
    gives the same blob as its source."""
    rng = sc.rng
    base = sc.current_branch() or "main"
    src = sc.new_branch_name("pc")
    files = [f for f in sc.files if f in sc.tracked() and sc.read(f)]
    if len(files) < 2:
        return sc.op_cherry_pick(kind="range")
    F, G = rng.sample(files, 2)
    who = rng.choice(sc.sessions)
    sc.g("checkout", "-q", "-b", src)
    n = rng.choice([2, 3])
    for i in range(n - 1):
        lines = sc.read(F)
        pos = rng.randrange(max(1, len(lines) // 2), len(lines) + 1)      # in the lower half of F
        sc.pre_ai(who, F); lines[pos:pos] = sc.new_lines(who, rng.choice([1, 2]), lines); sc.write(F, lines); sc.post_ai(who, F)
        sc.log.append(["edit", F, who, "ins@%d (lower half)" % pos])
        sc.commit_all("pc%d: agent lines in the lower half of F" % i)
    top = [sc.fresh("human", hostile=False), sc.fresh("human", hostile=False)]
    sc.write(F, top + sc.read(F))
    sc.do_edit(author=who, f=G, kinds=["ins"])
    sc.commit_all("pc-last: two lines at the top of F and an agent edit of G")
    sc.g("checkout", "-q", base)
    sc.write(F, top + sc.read(F))
    sc.commit_all("upstream already has the two top lines (partial back-port)")
    sc.g("cherry-pick", "%s~%d..%s" % (src, n, src))
    sc.ops.append("cherry-pick:partial-precondition:%d" % n)
    if sc.in_progress() or sc.unmerged():
        sc.finish_in_progress("cherry-pick", decide="abort")


def dropped_duplicate_rebase(sc):
    """A range that is LONGER than its rewritten image: 2-3 commits on distinct files, the first (or another) of them is also
    cherry-picked onto the upstream branch, so `git rebase` drops it as already applied and original / rewritten commits no longer
    pair up positionally."""
    rng = sc.rng
    base = sc.current_branch() or "main"
    feat = sc.new_branch_name("dd")
    files = [f for f in sc.files if f in sc.tracked()]
    rng.shuffle(files)
    n = min(len(files), rng.choice([2, 3, 3]))
    if n < 2:
        return sc.op_rebase(kind="plain")
    sc.g("checkout", "-q", "-b", feat)
    shas = []
    for i in range(n):
        sc.do_edit(author=rng.choice(sc.sessions + ["human"]) if i else rng.choice(sc.sessions), f=files[i], kinds=["ins"])
        sc.commit_all("dd%d" % i)
        shas.append(sc.w.ogit("rev-parse", "HEAD").strip())
    sc.g("checkout", "-q", base)
    dup = rng.randrange(n - 1)          # never the last one: at least one commit follows the dropped one
    sc.g("cherry-pick", shas[dup])
    if sc.in_progress():
        sc.finish_in_progress("cherry-pick", decide="abort")
        sc.g("checkout", "-q", "-f", base)
        return
    sc.g("checkout", "-q", feat)
    sc.g("rebase", base)
    sc.ops.append("rebase:dropped-duplicate@%d/%d" % (dup, n))
    if sc.in_progress():
        sc.finish_in_progress("rebase", decide="abort")
        sc.g("checkout", "-q", "-f", base)
    else:
        sc.g("checkout", "-q", base); sc.g("merge", "-q", "--ff-only", feat)


def rewritten(sc):
    """[(commit list of one notes_add_batch, shortcut taken?)] from the H-trace."""
    out = []
    fast_pids = set()
    for t in sc.w.trace():
        k = t.get("kind")
        if k in ("fast_path_rebase", "fast_path_cherry_pick") and t.get("taken"):
            fast_pids.add(t.get("pid"))
        elif k == "notes_add_batch":
            out.append((t.get("commits", []), t.get("pid")))
    return [(c, pid in fast_pids) for c, pid in out], fast_pids


def note_views(sc, commit):
    try:
        n = sc.nr.note_for(commit)
    except Exception as e:
        return ("UNPARSABLE", str(e)), None
    if n is None:
        return None, None
    strict = ({f: {h: sorted(ls) for h, ls in d.items() if ls} for f, d in n.files.items() if any(d.values())}, sorted((n.meta.get("prompts") or {}).keys()), n.meta.get("base_commit_sha"))
    added = sc.diff_added(commit)
    proj = {}
    for f, d in n.files.items():
        for h, ls in d.items():
            x = sorted(i for i in ls if i in added.get(f, ()))
            if x:
                proj.setdefault(f, {})[h] = x
    projected = (proj, sorted({h for d in proj.values() for h in d}), n.meta.get("base_commit_sha"))
    return strict, projected


def extra_lines(sa, pa, sb):
    if not sa or isinstance(sa[0], str) or not sb or isinstance(sb[0], str):
        return {} if not (sa and not isinstance(sa[0], str) and sb is None) else {f: d for f, d in sa[0].items()}
    out = {}
    for f, d in sa[0].items():
        for h, ls in d.items():
            proj = set(((pa[0] if pa else {}).get(f) or {}).get(h) or [])
            rep = set((sb[0].get(f) or {}).get(h) or [])
            x = sorted(set(ls) - proj - rep)
            if x:
                out.setdefault(f, {})[h] = x
    return out


def deleted_later_only(sc, c, commits, pa, pb):
    """True when the only difference between the projected views is: the shortcut's note lists added lines (same file, same session) that
    the replay's note omits, and every such line is gone from the last commit of the rewritten range (deleted, or changed in its line
    terminator: finding D16, second face - the replay works backwards from the state of the last commit)."""
    try:
        fa, ha, ba = pa
        fb, hb, bb = pb
    except (TypeError, ValueError):
        return False
    if ba != bb:
        return False
    from ..engine import key
    last = commits[-1]
    if c == last:
        return False
    found = False
    for f in set(fa) | set(fb):
        da, db = fa.get(f, {}), fb.get(f, {})
        for h in set(da) | set(db):
            la, lb = set(da.get(h, [])), set(db.get(h, []))
            if lb - la:
                return False
            extra = la - lb
            if not extra:
                continue
            here = sc.show_lines(c, f) or []
            end = {key(l) for l in (sc.show_lines(last, f) or [])}

            def raw(commit):
                p = sc.w.ogit("cat-file", "blob", "%s:%s" % (commit, f), raw=True)
                return p.out.decode("utf-8", "replace").splitlines(keepends=True) if p.rc == 0 else []
            here_raw, end_raw = raw(c), set(raw(last))
            for i in extra:
                if not (1 <= i <= len(here)):
                    return False
                if key(here[i - 1]) in end:
                    # still there by content - but changed later in the range in its line terminator (the last line of a file without
                    # a final newline gets one when a later commit of the range appends): the backwards replay does not find it either
                    if i <= len(here_raw) and here_raw[i - 1] not in end_raw:
                        sc.stats["projected_difference_tolerated_D16(line terminator changed later in the range)"] += 1
                        continue
                    return False
            found = True
    return found


def run_case(case):
    seed, index, flags_off = case["seed"], case["index"], case.get("flags_off", [])
    prng = random.Random("%s:C15p:%s" % (seed, index))
    prof = C.base_profile(prng, flags_off, hostile=prng.random() < 0.3)
    prof["hostile_messages"] = prng.random() < 0.5      # messages with body lines that look like raw commit headers (`tree ...`, `parent ...`)
    a = Hist("C15", seed, index, prof)
    b = None
    try:
        script(a)
        if a.viol or a.inconclusive:
            return C.finish(a, prof, index)
        b = Hist("C15", seed, index, prof, world_kwargs=dict(env_extra={"GIT_AI_VERIF_DISABLE_FAST_PATH": "1"}))
        script(b)
        if b.inconclusive:
            a.inconclusive = "replay run: " + b.inconclusive
            return C.finish(a, prof, index)
        if b.viol:
            # the reference itself broke the ledger / note invariants when forced to replay a range the shortcut normally handles
            # (finding D20 family, reported by the C02 check): the comparison has no usable reference => counted, not judged
            a.stats["reference_replay_unsound(not judged)"] += 1
            r = C.finish(a, prof, index, nontrivial=False)
            r["sig"] = "reference-unsound"
            return r
        batches, fast = rewritten(a)
        taken = sum(1 for _, f in batches if f)
        a.stats["shortcut_taken"] += taken
        a.stats["shortcut_declined_or_not_applicable"] += sum(1 for _, f in batches if not f)
        strict_ok = "slow_path_strict_notes" not in flags_off
        for commits, was_fast in batches:
            if not was_fast:
                continue
            # files touched by two commits of the range?
            seen, multi = set(), False
            for c in commits:
                for f in a.w.ogit("diff-tree", "--no-commit-id", "--name-only", "-r", "-z", c).split("\0"):
                    if f and f in seen:
                        multi = True
                    if f:
                        seen.add(f)
            for c in commits:
                sa, pa = note_views(a, c)
                sb, pb = note_views(b, c)
                a.stats["rewritten_commits_compared"] += 1
                extra = extra_lines(sa, pa, sb)
                if pa != pb and not strict_ok and deleted_later_only(a, c, commits, pa, pb):
                    # finding D16, second face: the full replay works backwards from the state of the LAST commit of the range, so an
                    # agent line that commit k adds and a later commit of the same range deletes again is missing from its note for
                    # commit k; the copied note (rightly) lists it. Counted while D16 is open, like the strict differences.
                    a.stats["projected_difference_tolerated_D16(line deleted later in the range)"] += 1
                elif pa != pb:
                    a.violation("C15/projected-notes-differ", commit=c, shortcut=pa, replay=pb)
                elif extra:
                    # lines the commit does not add, listed by the shortcut's note but not by the replay's (the replay may list MORE than
                    # the commit adds - finding D16 - but the copied note may not list anything the replay does not know about)
                    a.violation("C15/shortcut-note-lists-foreign-lines", commit=c, extra=extra, shortcut=sa, replay=sb)
                elif sa != sb and strict_ok:
                    a.violation("C15/strict-notes-differ", commit=c, shortcut=sa, replay=sb, range_has_file_touched_twice=multi)
                elif sa != sb:
                    a.stats["strict_difference_tolerated_D16"] += 1
        r = C.finish(a, prof, index, nontrivial=taken > 0)
        r["sig"] += "|taken=%d/%d" % (taken, len(batches))
        return r
    finally:
        a.destroy()
        if b:
            b.destroy()


def main(tier, seed, replay=None):
    return C.standard_main("C15", run_case, RULE, "exploration",
                           ["the full replay (shortcuts disabled by the verif switch) is the reference; the H-trace tells which runs actually took the shortcut",
                            "counters inside prompt records are not compared; ranges > 3 commits are not generated"],
                           tier, seed, replay, 60, 540)
