"""C04 — uncommitted AI work is carried to the commit that finally contains it, once."""
import random

from ..ops import Hist
from . import common as C

RULE = ("random sequences of 2-5 partial commits (by file subset, by staged hunk subset built with hash-object/update-index, "
        "`commit -a`, `commit -- path`) over AI+human edits, optional unrelated commits/edits in between, closed by commit-everything; "
        "per commit: note lists exactly the AI lines git says the commit added; final: every unambiguous AI line AI(S) in blame, "
        "no key listed by two commits; non-trivial = some AI line was left out of a partial commit and committed later; "
        "distinct = distinct (profile, op sequence) signatures")


def run_case(case):
    seed, index, flags_off = case["seed"], case["index"], case.get("flags_off", [])
    prng = random.Random("%s:C04p:%s" % (seed, index))
    prof = C.base_profile(prng, flags_off)
    sc = Hist("C04", seed, index, prof)
    try:
        rng = sc.rng
        C.setup_repo(sc)
        seq = []
        carried = 0
        for ci in range(rng.choice([2, 3, 3, 4, 5])):
            for _ in range(rng.randrange(1, 6)):
                if rng.random() < 0.12:
                    sc.do_create()      # new, still untracked files (written by an agent or a person) take part in the splits too
                else:
                    sc.do_edit()
            kind = rng.choice(["files", "hunks", "hunks", "paths", "all", "reworded", "deleted"])
            before = sc.head()
            if kind == "files":
                sc.op_partial_commit()
            elif kind == "hunks":
                sc.op_hunk_commit()
            elif kind == "paths":
                sc.op_commit_paths()
            elif kind == "reworded":
                sc.op_commit_index_then_reworded()
            elif kind == "deleted":
                sc.op_commit_index_then_deleted()
            else:
                sc.commit_all("all%d" % ci)
            c = sc.head()
            if c != before:
                seq.append(c)
                sc.after_step("partial %d %s" % (ci, kind))
                sc.check_commit_exact(c, "partial %d %s" % (ci, kind), rule="C04")
                if sc.pending_initial_files():
                    carried += 1
            if sc.viol or sc.inconclusive:
                break
        if not sc.viol and not sc.inconclusive:
            sc.commit_all("final")
            c = sc.head()
            seq.append(c)
            sc.after_step("final")
            sc.check_commit_exact(c, "final", rule="C04")
            sc.check_blame_tip("final", rule="C04")
            C.once_only(sc, seq, "final", rule="C04")
        sc.stats["carried_over_commits"] += carried
        return C.finish(sc, prof, index, nontrivial=carried > 0 and sc.stats["ai_lines_expected"] > 0)
    finally:
        sc.destroy()


def main(tier, seed, replay=None):
    return C.standard_main("C04", run_case, RULE, "exploration",
                           ["ledger oracle exact only for unique-token lines", "index content built directly (equivalent to add -p; staging is invisible to git-ai)",
                            "human edits on files with pending INITIAL claims are preceded by an IDE-style human checkpoint while finding D3' is open"],
                           tier, seed, replay, 50, 480)
