"""C03 — bounded-exhaustive part: every (pending-state kind x discarding command x what is typed afterwards) cell, deterministically.

Random exploration reaches the rare compositions (INITIAL-only pending claims discarded by an unusual spelling of a discard) only once in a
few hundred scripts; the table enumerates them all on every run.  A failing cell that a known finding lists (`cells` patterns in
known_findings.json) is reported as KNOWN-FINDING; any other failing cell is a VIOLATION.  A listed cell that passes is simply counted."""
import fnmatch

from ..witness.common import Script
from ..ops import Hist

F = "f.txt"
G = "g.txt"

PENDING = ["ckpt", "initial", "initial+ckpt", "staged", "initial-staged", "two-sessions"]

DISCARD = {
    "reset-hard": [["reset", "-q", "--hard"]],
    "reset-hard-head": [["reset", "-q", "--hard", "HEAD"]],
    "checkout-dd-f": [["checkout", "--", F]],
    "checkout-f": [["checkout", F]],
    "checkout-dot": [["checkout", "."]],
    "checkout-head-dd-f": [["checkout", "HEAD", "--", F]],
    "checkout-head-f": [["checkout", "HEAD", F]],
    "checkout-head-dd-dot": [["checkout", "HEAD", "--", "."]],
    "checkout-other-f": [["checkout", "HEAD~1", F]],
    "checkout-other-dd-f": [["checkout", "HEAD~1", "--", F]],
    "restore-source-other": [["restore", "--source", "HEAD~1", "--", F]],
    "rm-f-readd": "rm-readd",
    "checkout-force": [["checkout", "-q", "-f"]],
    "checkout-force-branch": [["checkout", "-q", "-f", "main"]],
    "switch-discard": [["switch", "-q", "--discard-changes", "main"]],
    "restore-f": [["restore", F]],
    "restore-dd-f": [["restore", "--", F]],
    "restore-dot": [["restore", "."]],
    "restore-staged-worktree": [["restore", "--staged", "--worktree", "--", F]],
    "restore-source-head": [["restore", "--source", "HEAD", "--staged", "--worktree", "--", F]],
    "restore-staged-then-restore": [["restore", "--staged", "--", F], ["restore", "--", F]],
    "reset-path-then-checkout": [["reset", "-q", "--", F], ["checkout", "--", F]],
    "stash-drop": [["stash", "push", "-q"], ["stash", "drop", "-q"]],
    "stash-u-drop": [["stash", "push", "-q", "-u"], ["stash", "drop", "-q"]],
    "stash-clear": [["stash", "-q"], ["stash", "clear"]],
    "stash-then-refused-pop": "pop-refused",
    "away-and-back-force": "away-checkout-f",
    "away-and-back-hard": "away-reset-hard",
}

FOLLOW = ["person", "person-unreported", "other-session"]


class S(Script, Hist):
    pass


def cells():
    out = []
    for p in PENDING:
        for d in DISCARD:
            for fo in FOLLOW:
                out.append("%s|%s|%s" % (p, d, fo))
    return out


def run_cell(case):
    cell = case["cell"]
    pend, disc, follow = cell.split("|")
    s = S("mx", files=2, human_edit_on_pending_unreported=True)
    try:
        f0 = [s.line("human") for _ in range(5)]
        g0 = [s.line("human") for _ in range(4)]
        s.human_write(F, f0); s.human_write(G, g0); s.commit_all("init")
        s.human_write(G, g0 + [s.line("human")]); s.commit_all("second")   # so that HEAD~1 exists
        who = "S1"
        ai = [s.line(who), s.line(who)]
        s.ai_write(who, F, ai + f0)
        if pend.startswith("initial"):
            # a commit of another file only: f's AI lines stay uncommitted, only INITIAL (line numbers) holds them afterwards
            s.human_write(G, g0 + [s.line("human"), s.line("human")])
            s.g("add", "--", G); s.g("commit", "-q", "-m", "only another file")
        if pend == "initial+ckpt":
            s.ai_write(who, F, ai + [s.line(who)] + f0)
        if pend == "two-sessions":
            s.ai_write("S2", F, ai + f0 + [s.line("S2")])
        if pend in ("staged", "initial-staged"):
            s.g("add", "--", F)
        steps = DISCARD[disc]
        refused_pop = False
        if steps == "pop-refused":
            # the work is stashed, HEAD moves on, the file is edited again by hand: `git stash pop` is refused (local changes would be
            # overwritten); a failed pop must not bring any attribution back. The follow-up is typed BEFORE the refused pop.
            s.g("stash", "push", "-q")
            s.human_write(G, s.read(G) + [s.line("human")]); s.g("add", "--", G); s.g("commit", "-q", "-m", "HEAD moves on")
            refused_pop = True
        elif steps == "rm-readd":
            # `git rm -f` takes the file away; the person re-creates it with the committed text before going on
            s.g("rm", "-q", "-f", "--", F)
            s.human_write(F, f0)
            s.g("add", "--", F)
        elif steps == "away-checkout-f":
            s.w.git("branch", "away", "HEAD~1", plain=True, tick=False)
            s.g("checkout", "-q", "-f", "away"); s.g("checkout", "-q", "main")
        elif steps == "away-reset-hard":
            tip = s.head()
            s.g("reset", "-q", "--hard", "HEAD~1"); s.g("reset", "-q", "--hard", tip)
        else:
            for argv in steps:
                s.g(*argv)
        if s.read(F) != f0:
            # the command did not discard the work in this state (e.g. plain restore of a staged change): nothing to decide
            r = s.finish()
            r.update(nontrivial=False, sig=None, cell=cell, applicable=False)
            return r
        s.stats["matrix_cells_applicable"] += 1
        if follow == "other-session":
            s.ai_write("S3", F, [s.line("S3"), s.line("S3"), s.line("S3")] + f0)
        else:
            s.human_write(F, [s.line("human"), s.line("human"), s.line("human")] + f0, ckpt=(follow == "person"))
        if refused_pop:
            p = s.g("stash", "pop", "-q")
            if p.rc == 0:
                r = s.finish()
                r.update(nontrivial=False, sig=None, cell=cell, applicable=False)
                return r
            s.g("stash", "drop", "-q")
        s.commit_all("after the discard")
        s.check_notes("matrix " + cell)
        s.check_blame_tip("matrix " + cell, complete=False, rule="C03")
        r = s.finish()
        r.update(nontrivial=True, sig="matrix:" + cell, cell=cell, applicable=True)
        r["sample"] = dict(cell=cell, steps=s.log[:40])
        return r
    finally:
        s.destroy()


def classify(cell, known_entries):
    """-> id of the open finding that lists this cell, or None."""
    for e in known_entries:
        for pat in e.get("cells", []):
            if fnmatch.fnmatchcase(cell, pat):
                return e
    return None
