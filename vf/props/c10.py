"""C10 — notes converge across clones and are never lost by sync (multi-clone scheduler, bounded exhaustive)."""
import itertools
import json
import os
import random
import subprocess
import threading

from ..world import World, BIN
from .. import runner as R
from .. import notes as N
from ..engine import Scenario
from . import witnesses

RULE = ("a local bare remote and 2-3 clones; each clone's program is a short list of steps from {commit with AI lines on its own branch, push, "
        "fetch, pull}; the scheduler executes interleavings of the programs through the git-ai proxy — ALL interleavings for 2 clones x up to 3 "
        "steps each (quick: a seeded sample of program pairs, every interleaving of each; thorough: more pairs, 3 clones sampled, and a variant "
        "with two pushes truly in parallel) — including first-time syncs where one side has no notes ref, clones made late through the proxy, and a clone whose `origin` was a fork with its own notes history before it was re-pointed at the remote (stale, unrelated remote-tracking notes ref). Each note is fingerprinted when its "
        "author clone writes it. After EVERY step every location's map commit->note must grow monotonically (no entry lost; no entry replaced by a "
        "note whose base_commit_sha is another commit); after the closing round (every clone pushes, then every clone fetches) every clone and the "
        "remote hold, for every commit they have, the author's note. distinct = distinct executed interleavings (program pair + schedule)")

STEPS = ["commit", "push", "fetch", "pull"]


class Net:
    def __init__(self, name, nclones, seed):
        self.w = World(name=name, mode="wrapper", init=False)
        self.w.panic_is_error = True
        self.remote = os.path.join(self.w.root, "remote.git")
        os.makedirs(self.remote)
        self.w.ogit("init", "-q", "--bare", "-b", "main", ".", cwd=self.remote)
        seedrepo = self.w.repo
        self.w.git("init", "-q", ".", plain=True)
        self.w.write_bytes("base.txt", b"base\n")
        self.w.git("add", "-A", plain=True); self.w.git("commit", "-q", "-m", "base", plain=True)
        self.w.git("push", "-q", self.remote, "main", plain=True)
        self.clones = []
        for i in range(nclones):
            p = os.path.join(self.w.root, "clone%d" % i)
            pr = self.w.git("clone", "-q", self.remote, p, cwd=self.w.root)
            if pr.rc != 0:
                raise RuntimeError("clone failed: " + pr.stderr[-300:])
            self.w.git("checkout", "-q", "-b", "c%d" % i, cwd=p, plain=True)
            self.clones.append(p)
        self.author_note = {}      # commit -> note text as written by its author clone
        self.maps = {}             # location -> {commit: note text}
        self.n = 0
        self.viol = []
        self.log = []

    def loc_map(self, path):
        nr = N.NotesReader(self.w, repo=path)
        out = {}
        for obj, ents in nr.mapping().items():
            out[obj] = nr.blob(ents[0][0])
            if len(ents) > 1:
                self.viol.append(dict(kind="C05/two-notes-for-object", where=path.replace(self.w.root, ""), obj=obj))
        return out

    def step(self, i, what):
        p = self.clones[i]
        w = self.w
        if what == "commit":
            self.n += 1
            f = "f%d.txt" % i
            cur = (w.read_bytes(f, p) or b"").decode()
            w.human_ckpt([f], cwd=p)
            w.write_bytes(f, (cur + "ai line %d by clone %d\n" % (self.n, i)).encode(), p)
            w.ai_ckpt("S%d" % i, [f], cwd=p)
            w.git("add", "-A", cwd=p); pr = w.git("commit", "-q", "-m", "c%d-%d" % (i, self.n), cwd=p)
            head = w.ogit("rev-parse", "HEAD", cwd=p).strip()
            note = self.loc_map(p).get(head)
            if note is None:
                self.viol.append(dict(kind="C10/commit-without-note", clone=i, commit=head))
            else:
                self.author_note[head] = note
        elif what == "push":
            pr = w.git("push", "-q", "origin", "c%d" % i, cwd=p)
        elif what == "fetch":
            pr = w.git("fetch", "-q", "origin", cwd=p)
        elif what == "pull":
            pr = w.git("pull", "-q", "--no-edit", "origin", "main", cwd=p)
        self.log.append([i, what, getattr(pr, "rc", None)])
        self.check_monotone("%d:%s" % (i, what))

    def repoint(self, i):
        """Clone i was made from a fork of the project (own bare repository with its own notes history), has synced notes with it under
        the remote name `origin`, and now re-points `origin` at the one remote (`git remote set-url`): the remote-tracking notes ref
        refs/notes/ai-remote/origin is stale and NOT an ancestor of the remote's notes."""
        p = self.clones[i]
        w = self.w
        fork = os.path.join(w.root, "fork%d.git" % i)
        w.ogit("clone", "-q", "--bare", self.remote, fork, cwd=w.root)
        w.git("remote", "set-url", "origin", fork, cwd=p, plain=True)
        self.step(i, "commit")
        self.step(i, "push")
        self.step(i, "fetch")
        self.tracking_before_repoint = w.ogit("rev-parse", "-q", "--verify", "refs/notes/ai-remote/origin", cwd=p).strip()
        w.git("remote", "set-url", "origin", self.remote, cwd=p, plain=True)
        self.log.append([i, "origin re-pointed from its fork to the remote", 0])

    def check_monotone(self, where):
        for name, path in [("remote", self.remote)] + [("clone%d" % i, p) for i, p in enumerate(self.clones)]:
            now = self.loc_map(path)
            old = self.maps.get(name, {})
            for c, text in old.items():
                if c not in now:
                    self.viol.append(dict(kind="C10/note-lost", where=where, location=name, commit=c))
                elif now[c] != text:
                    try:
                        base = N.parse_note(now[c]).meta.get("base_commit_sha")
                    except N.NoteError:
                        base = "unparsable"
                    if base != c:
                        self.viol.append(dict(kind="C10/note-replaced-by-foreign-note", where=where, location=name, commit=c, base=base))
            self.maps[name] = now

    def close(self):
        for i in range(len(self.clones)):
            self.step(i, "push")
        for i in range(len(self.clones)):
            self.step(i, "fetch")
        # convergence: every location holds, for every commit it has, the author's note
        for name, path in [("remote", self.remote)] + [("clone%d" % i, p) for i, p in enumerate(self.clones)]:
            have = set(self.w.ogit("rev-list", "--all", cwd=path).split())
            m = self.loc_map(path)
            for c, text in self.author_note.items():
                if c in have:
                    if c not in m:
                        self.viol.append(dict(kind="C10/not-converged-missing", location=name, commit=c))
                    else:
                        try:
                            a, b = N.parse_note(m[c]), N.parse_note(text)
                            if a.files != b.files or a.meta.get("base_commit_sha") != c:
                                self.viol.append(dict(kind="C10/not-converged-different", location=name, commit=c))
                        except N.NoteError as e:
                            self.viol.append(dict(kind="C10/unparsable-note", location=name, commit=c, err=str(e)))

    def destroy(self):
        self.w.destroy()


def interleavings(a, b):
    """All merges of two sequences preserving their internal order (as index lists of which clone moves)."""
    n, m = len(a), len(b)
    for pos in itertools.combinations(range(n + m), n):
        order = [1] * (n + m)
        for p in pos:
            order[p] = 0
        yield order


def run_case(case):
    progs, order, seed = case["progs"], case["order"], case["seed"]
    net = Net("C10", len(progs), seed)
    try:
        idx = [0] * len(progs)
        if case.get("parallel_push"):
            # both clones commit, then push truly in parallel
            for i in range(len(progs)):
                net.step(i, "commit")
            ths = [threading.Thread(target=net.w.git, args=("push", "-q", "origin", "c%d" % i), kwargs=dict(cwd=net.clones[i], tick=False)) for i in range(len(progs))]
            for t in ths: t.start()
            for t in ths: t.join()
            net.log.append(["parallel-push"])
            net.check_monotone("parallel push")
        if case.get("repoint") is not None:
            # the remote gets a notes history of its own first, then the other clone turns up with a stale tracking ref
            net.step(1 - case["repoint"], "commit"); net.step(1 - case["repoint"], "push")
            net.repoint(case["repoint"])
        for who in order:
            net.step(who, progs[who][idx[who]])
            idx[who] += 1
            if net.viol:
                break
        if not net.viol and case.get("late_clone"):
            # a clone made through the proxy AFTER notes exist on the remote: the clone hook has to bring them along
            k = len(net.clones)
            pth = os.path.join(net.w.root, "clone%d" % k)
            how = random.Random("%s:%s:late" % (seed, case["index"])).choice(["abs", "rel", "dash-C", "dash-C-c"])
            if how == "abs":
                pr = net.w.git("clone", "-q", net.remote, pth, cwd=net.w.root)
            elif how == "rel":
                pr = net.w.git("clone", "-q", net.remote, os.path.basename(pth), cwd=net.w.root)
            elif how == "dash-C":
                pr = net.w.git("-C", net.w.root, "clone", "-q", net.remote, os.path.basename(pth), cwd="/")
            else:
                pr = net.w.git("-C", net.w.root, "-c", "verif.ctx=1", "clone", "-q", net.remote, os.path.basename(pth), cwd="/")
            if pr.rc == 0:
                net.w.git("checkout", "-q", "-b", "c%d" % k, cwd=pth, plain=True)
                net.clones.append(pth)
                net.log.append([k, "late-clone", pr.rc])
                net.check_monotone("late clone")
                have = set(net.w.ogit("rev-list", "--all", cwd=pth).split())
                m = net.loc_map(pth)
                rm = net.loc_map(net.remote)
                # (the property asks for convergence after the closing round; whether the clone hook already brought the notes along is
                # counted, not asserted - the invocation-context side of it is pinned by the C12 witness for D81)
                net.late_clone_missing = sum(1 for c in have if c in rm and c not in m)
                if case.get("late_clone") == "commit":
                    net.step(k, "commit")
        if not net.viol:
            net.close()
        commits = len(net.author_note)
        return dict(index=case["index"], viol=net.viol, stats=dict(repointed_origins=1 if getattr(net, "tracking_before_repoint", "") else 0, steps=len(net.log), commits_with_notes=commits, locations=len(progs) + 1, late_clone_notes_missing_at_clone_time=getattr(net, "late_clone_missing", 0)),
                    sig=json.dumps([progs, order, bool(case.get("parallel_push")), case.get("late_clone"), case.get("repoint")]), log=net.log, nontrivial=commits > 0 and any("push" in p for p in progs),
                    inconclusive=None, sample=dict(programs=progs, schedule=order, log=net.log))
    finally:
        net.destroy()


def main(tier, seed, replay=None):
    rep = R.Report("C10", tier, seed, "exploration", RULE,
                   ["local file transport only; server-side hooks and other transports are out of reach",
                    "bounded exhaustive: every interleaving of each drawn program pair is executed (coverage.exhaustive refers to that inner enumeration)"])
    if replay:
        case = json.load(open(replay))["case"]
        rep.add_results([R._worker((run_case, case))])
        return rep.finish(min_nontrivial=0)
    witnesses.replay_for(rep, "C10")
    rng = random.Random("%s:C10" % seed)
    cases = []
    npairs = 30 if tier == "quick" else 120
    i = 0
    for _ in range(npairs):
        la, lb = (rng.choice([2, 3]), rng.choice([2, 3])) if tier == "quick" else (rng.choice([2, 3, 4]), rng.choice([2, 3, 4]))
        pa = ["commit"] + [rng.choice(STEPS) for _ in range(la - 1)]
        pb = [rng.choice(["commit", "fetch", "pull"])] + [rng.choice(STEPS) for _ in range(lb - 1)]
        for order in interleavings(pa, pb):
            cases.append(dict(seed=seed, index=i, progs=[pa, pb], order=order)); i += 1
    for _ in range(4 if tier == "quick" else 30):
        cases.append(dict(seed=seed, index=i, progs=[["commit", "push"], ["commit", "push"]], order=[0, 1, 0, 1][:0], parallel_push=True)); i += 1
    for j in range(10 if tier == "quick" else 40):
        pa = ["commit", "push"] + [rng.choice(STEPS) for _ in range(rng.choice([0, 1]))]
        pb = [rng.choice(["commit", "fetch"])] + [rng.choice(STEPS) for _ in range(rng.choice([1, 2]))]
        order = [0] * len(pa) + [1] * len(pb)
        rng.shuffle(order)
        cases.append(dict(seed=seed, index=i, progs=[pa, pb], order=order, late_clone=rng.choice(["plain", "commit"]))); i += 1
    for j in range(8 if tier == "quick" else 40):
        # a clone whose `origin` used to be a fork with its own notes history
        pa = [rng.choice(STEPS) for _ in range(rng.choice([1, 2]))]
        pb = [rng.choice(STEPS) for _ in range(rng.choice([1, 2]))]
        order = [0] * len(pa) + [1] * len(pb)
        rng.shuffle(order)
        cases.append(dict(seed=seed, index=i, progs=[pa, pb], order=order, repoint=j % 2)); i += 1
    for _ in range(12 if tier == "quick" else 0):
        # three clones (sampled orders) also in the quick tier
        progs = [[rng.choice(STEPS) for _ in range(rng.choice([2, 3]))] for _ in range(3)]
        progs[0][0] = "commit"
        order = [k for k, p in enumerate(progs) for _ in p]
        rng.shuffle(order)
        cases.append(dict(seed=seed, index=i, progs=progs, order=order)); i += 1
    if tier == "thorough":
        for _ in range(150):
            progs = [[rng.choice(STEPS) for _ in range(rng.choice([2, 3]))] for _ in range(3)]
            progs[0][0] = "commit"
            order = [k for k, p in enumerate(progs) for _ in p]
            rng.shuffle(order)
            cases.append(dict(seed=seed, index=i, progs=progs, order=order)); i += 1
    rng.shuffle(cases)
    res = R.run_pool(run_case, cases, R.budget(tier, 60, 700))
    rep.add_results(res)
    rep.extra["interleavings_planned"] = len(cases)
    rep.extra["exhaustive"] = len(res) >= len(cases)
    return rep.finish()
