"""C14 — attribution does not depend on how often or how finely checkpoints are taken (metamorphic)."""
import random

from ..ops import Hist
from . import common as C

RULE = ("each case runs one seeded script (edits by a person and AI sessions, full / file-wise / hunk-wise partial commits) in a fresh world, "
        "then re-runs the identical script under variants: extra human checkpoints after human edits, any checkpoint repeated with no change, "
        "one agent insertion/replacement split into two same-session checkpoints, read-only git commands (status, log, diff, show, blame, "
        "stash list, branch -a) through the proxy at random places, and all four together; commit ids coincide (logical clock), and the "
        "per-commit note line sets and the final blame maps must be identical to the base run; the ledger is asserted on every run too. "
        "non-trivial = the variant actually inserted at least one extra/split/repeated checkpoint or read-only command and AI lines were at stake")

VARIANTS = [{"extra_human_ckpt"}, {"repeat"}, {"split"}, {"readonly"}, {"extra_human_ckpt", "repeat", "split", "readonly"}]


def script(sc):
    rng = sc.rng
    C.setup_repo(sc)
    for ci in range(rng.choice([1, 2, 3])):
        for _ in range(rng.randrange(1, 6)):
            sc.do_edit()
        if rng.random() < 0.3 and len(sc.files) > 1 and not sc.agent_deletion_pending():
            # a stash round trip with other agent work pending in between (read-only commands such as `stash list` / `stash show`
            # run at that point in the read-only variant)
            fa, fb = rng.sample(sc.files, 2)
            sc.do_edit(author=rng.choice(sc.sessions), f=fa, kinds=["ins"])
            sc.g("stash", "push", "-q")
            if sc.w.ogit("stash", "list").strip():
                sc.do_edit(author=rng.choice(sc.sessions), f=fb, kinds=["ins"])
                if "readonly" in sc.variant:
                    sc.readonly_cmds()
                    for c in (["stash", "list"], ["stash", "show"]):
                        sc.w.git(*c, tick=False)
                        sc.stats["readonly_cmds"] += 1
                sc.g("stash", "pop", "-q")
                if sc.unmerged():
                    sc.resolve_conflicts(how="both"); sc.g("reset", "-q"); sc.g("stash", "drop", "-q")
                sc.ops.append("stash:roundtrip")
        if rng.random() < 0.35 and len(sc.files) > 1:
            # a person edits two files in a row (one of them also touched by an agent before), then an agent edits the second one:
            # whatever checkpoints and read-only commands fall in between, the person's lines stay the person's
            fa, fb = rng.sample(sc.files, 2)
            sc.do_edit(author=rng.choice(sc.sessions), f=fa, kinds=["ins"])
            sc.do_edit(author="human", f=fb, kinds=["ins"], ckpt=False)
            sc.w.human_ckpt([fa, fb])                                        # on record: a person-only entry for fb in the working log
            sc.do_edit(author="human", f=fa, kinds=["ins"], ckpt=False)
            sc.do_edit(author="human", f=fb, kinds=["ins"], ckpt=False)
            if "readonly" in sc.variant:
                # read-only for the user; git-ai takes a commit-style checkpoint around it
                sc.w.git(*sc.vrng.choice([["stash", "list"], ["stash", "show"], ["commit", "--dry-run"]]), tick=False)
                sc.stats["readonly_cmds"] += 1
            sc.do_edit(author=rng.choice(sc.sessions), f=fb, kinds=["ins"])
            sc.ops.append("two-file-person-then-agent")
        if rng.random() < 0.3 and len(sc.files) > 1:
            # an agent's reported lines in fa are shifted by a person's edit that nobody reports; then only ANOTHER file, which the
            # person alone has touched, is staged and committed: the commit-time checkpoint is the only one that can still re-base the
            # agent's pending lines of fa (with the redundant-checkpoint variants an earlier one already did)
            fa, fb = rng.sample(sc.files, 2)
            sc.do_edit(author=rng.choice(sc.sessions), f=fa, kinds=["ins"])
            sc.do_edit(author="human", f=fa, kinds=["ins"], ckpt=False)
            sc.do_edit(author="human", f=fb, kinds=["ins"], ckpt=False)
            sc.g("add", "--", fb); sc.g("commit", "-q", "-m", "only the person's file", "--", fb)
            sc.ops.append("person-shifts-agent-lines-then-commits-another-file")
        kind = rng.choice(["all", "all", "files", "hunks"])
        if kind == "files":
            sc.op_partial_commit()
        elif kind == "hunks":
            sc.op_hunk_commit()
        else:
            sc.commit_all("c%d" % ci)
        if "readonly" in sc.variant:
            sc.readonly_cmds()
        sc.after_step("commit %d" % ci)
        if sc.viol:
            return
    sc.commit_all("final")
    sc.after_step("final")
    sc.check_blame_tip("final", rule="C14")


def snapshot(sc):
    notes = {}
    mapping = sc.nr.mapping()
    for c in sc.w.ogit("rev-list", "HEAD").split():
        try:
            n = sc.nr.note_for(c, mapping)
        except Exception:
            n = None
        notes[c] = {f: {h: sorted(ls) for h, ls in d.items() if ls} for f, d in n.files.items()} if n else None
        if notes[c] is not None:
            notes[c] = {f: d for f, d in notes[c].items() if d}
    blame = {}
    for f in sc.tracked():
        b = sc.blame(f)
        blame[f] = {i: h for i, h in (b or {}).items() if h in sc.h2s}
    return dict(notes=notes, blame=blame)


def run_case(case):
    seed, index, flags_off = case["seed"], case["index"], case.get("flags_off", [])
    prng = random.Random("%s:C14p:%s" % (seed, index))
    prof = C.base_profile(prng, flags_off)
    variants = [prng.choice(VARIANTS[:4]), VARIANTS[4]] if case.get("tier") != "thorough" else VARIANTS
    base = Hist("C14", seed, index, prof)
    out = None
    try:
        script(base)
        if base.viol or base.inconclusive:
            return C.finish(base, prof, index)
        ref = snapshot(base)
        acted = 0
        for v in variants:
            sc = Hist("C14", seed, index, prof)
            sc.variant = set(v)
            try:
                script(sc)
                for k, n in sc.stats.items():
                    if k.startswith("variant_") or k == "readonly_cmds":
                        base.stats[k] += n
                        acted += n
                base.stats["variants_run"] += 1
                if sc.viol:
                    for x in sc.viol:
                        x["variant"] = sorted(v)
                        base.viol.append(x)
                    break
                got = snapshot(sc)
                if got["notes"] != ref["notes"]:
                    diff = [(c[:10], ref["notes"].get(c), got["notes"].get(c)) for c in sorted(set(ref["notes"]) | set(got["notes"])) if ref["notes"].get(c) != got["notes"].get(c)][:3]
                    base.violation("C14/notes-differ", variant=sorted(v), diff=diff)
                    base.log = sc.log
                if got["blame"] != ref["blame"]:
                    diff = [(f, sorted(set(ref["blame"].get(f, {}).items()) ^ set(got["blame"].get(f, {}).items()))[:6]) for f in sorted(set(ref["blame"]) | set(got["blame"])) if ref["blame"].get(f) != got["blame"].get(f)][:3]
                    base.violation("C14/blame-differs", variant=sorted(v), diff=diff)
                    base.log = sc.log
                if base.viol:
                    break
            finally:
                sc.destroy()
        r = C.finish(base, prof, index, nontrivial=acted > 0 and base.stats["ai_lines_expected"] > 0)
        return r
    finally:
        base.destroy()


def main(tier, seed, replay=None):
    return C.standard_main("C14", run_case, RULE, "exploration",
                           ["metamorphic equality between runs of the same script; prompt counters (total_additions ...) legitimately depend on granularity and are not compared",
                            "splits are generated for insertions / replacements of >= 2 lines"],
                           tier, seed, replay, 60, 540)
