"""C13 — wrapper mode and git-hooks mode record the same authorship (differential)."""
import random

from ..ops import Hist
from . import common as C
from .c14 import snapshot

RULE = ("each case runs one seeded script twice in fresh worlds: through the git-ai proxy (wrapper mode) and with `git-ai git-hooks ensure` + "
        "plain git (hooks mode); scripts draw from commit (all / files / hunks), amend, rebase (plain, --onto, -i reorder/squash/fixup/reword), "
        "cherry-pick (one/range), reset soft/mixed + recommit, stash round trips, merge --squash, switch/checkout carrying work; commit ids "
        "coincide (logical clock), so notes are compared per commit id (files, sessions, line sets, prompt ids) and blame per file; both runs "
        "are also checked against the ledger. non-trivial = at least one note with AI lines compared and a rewrite op ran; distinct = op sequences")

OPS = ["commit", "commit", "partial", "amend", "rebase", "rebase-i", "cherry", "cherry-abandon", "cherry-stash", "reset", "reset-detached", "stash", "squash", "switch", "pull"]


def script(sc):
    rng = sc.rng
    C.setup_repo(sc, 3, 12)
    for _ in range(rng.choice([1, 2])):
        sc.do_edit()
    sc.commit_all("hist")
    for k in range(rng.choice([1, 2, 2, 3])):
        import os
        pool = os.environ["VERIF_C13_OPS"].split(",") if os.environ.get("VERIF_C13_OPS") else OPS
        op = rng.choice(pool)
        if k == 0:
            # stratified: the first operation of case i is the i-th kind (every window of len(OPS) cases covers every kind), the rest is random
            uniq = sorted(set(pool)) + [x for x in ("pull", "rebase-i", "cherry-stash") if x in pool]     # the composite operations twice
            op = uniq[sc.index % len(uniq)]
        if op == "commit":
            sc.do_edit(); sc.do_edit(); sc.commit_all("c")
        elif op == "partial":
            sc.do_edit(); sc.do_edit()
            rng.choice([sc.op_partial_commit, sc.op_hunk_commit])()
        elif op == "amend":
            sc.do_edit(); sc.commit_all("to-amend")
            ai_only = not sc.profile.get("amend_human_edit", True)
            sc.do_edit(author=rng.choice(sc.sessions) if ai_only else None, kinds=["ins", "rep", "mod"] if ai_only else None)
            sc.op_amend()
        elif op == "cherry-stash":
            # hooks mode learns about stash push / pop from reference-transaction events on refs/stash, also while a sequencer operation is stopped
            sc.commit_all("pre")
            sc.op_stash_during_stopped_cherry_pick()
        elif op == "cherry-abandon":
            sc.commit_all("pre")
            sc.op_cherry_conflict_abandoned_commit()
        elif op == "rebase-i":
            # the two modes learn the old -> new commit mapping of an interactive rebase differently (wrapper: walks the history;
            # hooks: git's post-rewrite pairs, where every member of a squash / fixup chain is reported against the same new commit)
            sc.commit_all("pre")
            sc.op_rebase(kind="interactive")
        elif op in ("rebase", "cherry", "squash"):
            sc.commit_all("pre")
            {"rebase": sc.op_rebase, "cherry": sc.op_cherry_pick, "squash": sc.op_squash_merge}[op]()
        elif op == "reset":
            sc.begin_undoable()
            sc.do_edit(); sc.commit_all("to-undo")
            if rng.random() < 0.5:
                sc.do_edit()
            sc.op_reset(mode=rng.choice(["--soft", "--mixed"]))
        elif op == "reset-detached":
            # with a detached HEAD git reports a reset as an update of `HEAD` alone (no refs/heads/* line in the reference transaction)
            sc.begin_undoable()
            sc.do_edit(); sc.commit_all("to-undo")
            br = sc.current_branch()
            sc.g("checkout", "-q", "--detach")
            sc.op_reset(mode=rng.choice(["--soft", "--mixed"]))
            sc.commit_all("re-made on a detached HEAD")
            if br:
                sc.g("checkout", "-q", "-B", br)
        elif op == "stash":
            # finding D28: in hooks mode `stash apply` after HEAD moved loses the attribution (`pop` keeps it)
            sc.do_edit(); sc.op_stash(how=None if sc.profile.get("hooks_stash_apply", True) else "pop")
        elif op == "switch":
            sc.do_edit(); sc.op_switch_carry()
        elif op == "pull":
            sc.op_pull()
        sc.after_step("op %d %s" % (k, op))
        if sc.viol or sc.inconclusive:
            return
    if sc.in_progress():
        sc.inconclusive = "in progress at end"
        return
    sc.commit_all("final")
    sc.after_step("final")
    sc.check_blame_tip("final", rule="C13")


def full_snapshot(sc):
    snap = snapshot(sc)
    # Notes are compared on the lines each commit added (what blame consults). The full replay of rebase / cherry-pick lists further
    # lines of earlier commits (finding D16, reported by the C15 check), which the two modes reach through different paths.
    for c, files in list(snap["notes"].items()):
        if not files:
            continue
        added = sc.diff_added(c)
        proj = {}
        for f, d in files.items():
            pd = {h: [i for i in ls if i in added.get(f, ())] for h, ls in d.items()}
            pd = {h: ls for h, ls in pd.items() if ls}
            if pd:
                proj[f] = pd
        snap["notes"][c] = proj
    prompts = {}
    mapping = sc.nr.mapping()
    for c in snap["notes"]:
        try:
            n = sc.nr.note_for(c, mapping)
        except Exception:
            n = None
        used = {h for d in (snap["notes"].get(c) or {}).values() for h in d}
        prompts[c] = sorted(h for h in (n.meta.get("prompts") or {}).keys() if h in used) if n else None
    snap["prompts"] = prompts
    return snap


def run_case(case):
    seed, index, flags_off = case["seed"], case["index"], case.get("flags_off", [])
    prng = random.Random("%s:C13p:%s" % (seed, index))
    prof = C.base_profile(prng, flags_off, hostile=prng.random() < 0.4)
    a = Hist("C13", seed, index, prof, world_kwargs=dict(mode="wrapper"))
    b = None
    try:
        script(a)
        if a.viol or a.inconclusive:
            return C.finish(a, prof, index)
        b = Hist("C13", seed, index, prof, world_kwargs=dict(mode="hooks"))
        script(b)
        a.stats["hooks_mode_git_cmds"] += b.stats["git_cmds"]
        if b.inconclusive:
            a.inconclusive = "hooks-mode run: " + b.inconclusive
            return C.finish(a, prof, index)
        if b.viol:
            for x in b.viol:
                x["mode"] = "hooks"
                a.viol.append(x)
            a.log = b.log
            return C.finish(a, prof, index)
        sa, sb = full_snapshot(a), full_snapshot(b)
        for part in ("notes", "prompts", "blame"):
            # a commit without a note and a commit whose note lists nothing / has no prompt record are equivalent (nothing is attributed)
            na = {k: v for k, v in sa[part].items() if v} if part != "blame" else sa[part]
            nb = {k: v for k, v in sb[part].items() if v} if part != "blame" else sb[part]
            if na != nb:
                keys = sorted(set(na) | set(nb))
                diff = [(str(k)[:12], na.get(k), nb.get(k)) for k in keys if na.get(k) != nb.get(k)][:3]
                a.violation("C13/%s-differ" % part, diff=diff, heads=(a.head(), b.head()))
        a.stats["commits_compared"] += len(sa["notes"])
        nontrivial = any(v for v in sa["notes"].values()) and any(o.split(":")[0] in ("rebase", "cherry-pick", "amend", "reset", "stash", "merge", "switch", "pull") for o in a.ops)
        return C.finish(a, prof, index, nontrivial=nontrivial)
    finally:
        a.destroy()
        if b:
            b.destroy()


def main(tier, seed, replay=None):
    return C.standard_main("C13", run_case, RULE, "exploration",
                           ["differential between the two installation modes of the same binary; the ledger arbitrates each side",
                            "rewrite shapes that are open findings under C02 are excluded in both modes"],
                           tier, seed, replay, 60, 540)
