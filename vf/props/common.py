"""Shared pieces of the scenario-based property drivers."""
import json
import random

from .. import runner as R
from ..ops import Hist


def base_profile(rng, flags_off, hostile=True):
    p = dict(sessions=rng.choice([1, 2, 2, 3]), files=rng.choice([1, 2, 2, 3]),
             hostile_content=hostile and rng.random() < 0.5, hostile_names=hostile and rng.random() < 0.25,
             crlf=hostile and rng.random() < 0.15, no_final_nl=hostile and rng.random() < 0.2, decoys=hostile and rng.random() < 0.2,
             human_ckpt_rate=rng.choice([0.0, 0.0, 0.3, 1.0]))
    if "reindent_committed_ai" in flags_off or "reindent_delete_combo" in flags_off or "ai_ws_touch_strict" in flags_off:
        # whitespace-only edits are exercised end-to-end by C01 and in-process by C16; in multi-commit / rewrite scenarios they are
        # kept out of random exploration while the whitespace findings D13 / D17 / D24 are open (long tail of the same defects)
        p["reindent"] = False
    if "rebase_upstream_same_file" in flags_off:
        # finding D20 family: the content-matching replay also mis-places attributions around blank / duplicated lines
        p["decoys"] = False
    for f in flags_off:
        p[f] = False
    return p


def setup_repo(sc, min_lines=2, max_lines=12):
    rng = sc.rng
    files = sc.choose_files()
    for f in files:
        sc.write(f, [sc.fresh("human", hostile=False) for _ in range(rng.randrange(min_lines, max_lines))])
    sc.commit_all("init")
    sc.after_step("init")


def all_branch_commits(sc, repo=None):
    refs = sc.w.ogit("for-each-ref", "--format=%(refname)", "refs/heads", cwd=repo).split()
    if not refs:
        return []
    return sc.w.ogit("rev-list", *refs, cwd=repo).split()


def once_only(sc, commits, where, rule="C04"):
    """No content key is listed AI by the notes of two different commits (whitespace-only re-listings excepted)."""
    seen = {}
    mapping = sc.nr.mapping()
    for c in commits:
        try:
            note = sc.nr.note_for(c, mapping)
        except Exception:
            continue
        if not note:
            continue
        for f, sess in note.files.items():
            ls = sc.show_lines(c, f)
            if ls is None:
                continue
            for h, lineset in sess.items():
                for i in lineset:
                    if 1 <= i <= len(ls):
                        l = ls[i - 1]
                        k = sc.ledger and __import__("vf.engine", fromlist=["key"]).key(l)
                        if not k or sc.ledger.is_decoy(l) or k in sc.ws_keys:
                            continue
                        if k in seen and seen[k][0] != c:
                            sc.violation(rule + "/listed-by-two-commits", text=l, commits=[seen[k][0], c], files=[seen[k][1], f], where=where)
                        seen.setdefault(k, (c, f))


def finish(sc, prof, index, nontrivial=None):
    r = sc.finish()
    r["nontrivial"] = (sc.stats["ai_lines_expected"] > 0) if nontrivial is None else nontrivial
    r["sig"] = "%s|%s" % (sorted(k for k, v in prof.items() if v is True), r["sig"])
    r["sample"] = dict(index=index, profile=prof, steps=sc.log[:60])
    return r


def standard_main(prop, run_case, rule, level, assumptions, tier, seed, replay, quick_s, thorough_s, extra_case=None, min_nontrivial=2, before_pool=None):
    rep = R.Report(prop, tier, seed, level, rule, assumptions)
    flags_off = sorted(R.trigger_off_flags(prop))
    if replay:
        case = json.load(open(replay))["case"]
        r = R._worker((run_case, case))
        for l in r.get("log") or []:
            R.log("  ", l)
        rep.add_results([r])
        return rep.finish(min_nontrivial=0)
    from . import witnesses
    witnesses.replay_for(rep, prop)
    if before_pool:
        before_pool(rep)
    def gen():
        for i in range(1000000):
            c = dict(seed=seed, index=i, flags_off=flags_off, tier=tier)
            if extra_case:
                c.update(extra_case(i))
            yield c
    res = R.run_pool(run_case, gen(), R.budget(tier, quick_s, thorough_s))
    rep.add_results(res)
    rep.extra["trigger_flags_off"] = flags_off
    return rep.finish(min_nontrivial=min_nontrivial)
