"""C03 — nothing a person wrote is ever attributed to an AI session (universal negative, destructive commands oversampled)."""
import random

from ..ops import Hist
from . import common as C

RULE = ("random scripts over edits (AI + human), partial/full commits and destructive commands (reset --hard, checkout/switch -f, path "
        "checkout, restore [--staged|--source], stash drop/clear, branch -D, clean, rm, mv, reset -- path, rebase/merge/cherry-pick with "
        "conflicts resolved or aborted), each followed by a person typing fresh lines at the positions discarded AI work occupied, then "
        "commits; after EVERY step every note in refs/notes/ai and, after every commit, blame at HEAD are checked: a line reported AI(S) "
        "must have been written by S per the content ledger. Completeness is NOT asserted. non-trivial = at least one destructive command "
        "ran while AI attribution (pending or committed) existed and at least one AI claim was checked; distinct = op-sequence signatures")


def run_case(case):
    seed, index, flags_off = case["seed"], case["index"], case.get("flags_off", [])
    prng = random.Random("%s:C03p:%s" % (seed, index))
    prof = C.base_profile(prng, flags_off)
    sc = Hist("C03", seed, index, prof)
    try:
        rng = sc.rng
        C.setup_repo(sc)
        destr = 0
        for step in range(rng.randrange(4, 12)):
            r = rng.random()
            where = "step %d" % step
            if r < 0.35:
                sc.do_edit()
            elif r < 0.5:
                k = rng.choice(["all", "files", "hunks", "paths"])
                {"all": lambda: sc.commit_all("c"), "files": sc.op_partial_commit, "hunks": sc.op_hunk_commit, "paths": sc.op_commit_paths}[k]()
                sc.check_blame_tip(where, complete=False, rule="C03")
            elif r < 0.8:
                # AI work first, so that there is something to discard; sometimes turned into INITIAL-only pending state by a
                # commit of other files (line-number claims with no content snapshot left)
                if rng.random() < 0.7:
                    sc.do_edit(author=rng.choice(sc.sessions))
                    if rng.random() < 0.4 and len(sc.files) > 1:
                        others = [x for x in sc.files if x != sc.log[-1][1]]
                        sc.do_edit(author="human", f=rng.choice(others), kinds=["ins"])
                        sc.g("add", "--", sc.log[-1][1]); sc.g("commit", "-q", "-m", "only another file")
                ch = sc.op_destructive()
                destr += 1
                sc.human_overwrite_same_lines()
                if rng.random() < 0.6:
                    sc.commit_all("after-" + ch)
                    sc.check_blame_tip(where, complete=False, rule="C03")
            elif r < 0.9:
                k = rng.choice(["rebase", "cherry", "merge", "squash", "stash", "reset", "switch"] + (["amend"] if sc.profile.get("amend_human_edit", True) else []))
                if k in ("rebase", "cherry", "merge", "squash"):
                    sc.commit_all("pre")
                {"rebase": sc.op_rebase, "cherry": sc.op_cherry_pick, "merge": sc.op_merge, "squash": sc.op_squash_merge,
                 "stash": sc.op_stash, "reset": sc.op_reset, "amend": sc.op_amend, "switch": sc.op_switch_carry}[k]()
            else:
                sc.human_overwrite_same_lines()
            sc.after_step(where)
            if sc.viol or sc.inconclusive:
                break
        if not sc.viol and not sc.inconclusive:
            if sc.in_progress():
                sc.inconclusive = "operation still in progress at end: %s" % sc.in_progress()
            else:
                sc.commit_all("final")
                sc.after_step("final")
                sc.check_blame_tip("final", complete=False, rule="C03")
        sc.stats["destructive_ops"] += destr
        checked = sc.stats["note_ai_lines_checked"] + sc.stats["blame_lines"]
        return C.finish(sc, prof, index, nontrivial=destr > 0 and checked > 0)
    finally:
        sc.destroy()


def main(tier, seed, replay=None):
    return C.standard_main("C03", run_case, RULE, "exploration",
                           ["ledger oracle: AI claim on a line is sound iff that session introduced the line's content key (decoys: ever introduced)",
                            "the same monitor also rides on every other scenario-based check (C01, C02, C04, C08, C12-C15)"],
                           tier, seed, replay, 50, 480)
