"""C03 — nothing a person wrote is ever attributed to an AI session (universal negative, destructive commands oversampled)."""
import random

from ..ops import Hist
from . import common as C

RULE = ("random scripts over edits (AI + human), partial/full commits and destructive commands (reset --hard, checkout/switch -f, path "
        "checkout, restore [--staged|--source], stash drop/clear, branch -D, clean, rm, mv, reset -- path, rebase/merge/cherry-pick with "
        "conflicts resolved or aborted), each followed by a person typing fresh lines at the positions discarded AI work occupied, then "
        "commits; after EVERY step every note in refs/notes/ai and, after every commit, blame at HEAD are checked: a line reported AI(S) "
        "must have been written by S per the content ledger. Completeness is NOT asserted. non-trivial = at least one destructive command "
        "ran while AI attribution (pending or committed) existed and at least one AI claim was checked; distinct = op-sequence signatures")


def run_case(case):
    seed, index, flags_off = case["seed"], case["index"], case.get("flags_off", [])
    prng = random.Random("%s:C03p:%s" % (seed, index))
    prof = C.base_profile(prng, flags_off)
    sc = Hist("C03", seed, index, prof)
    try:
        rng = sc.rng
        C.setup_repo(sc)
        destr = 0
        for step in range(rng.randrange(4, 12)):
            r = rng.random()
            where = "step %d" % step
            if r < 0.35:
                sc.do_edit()
            elif r < 0.5:
                k = rng.choice(["all", "files", "hunks", "paths"])
                {"all": lambda: sc.commit_all("c"), "files": sc.op_partial_commit, "hunks": sc.op_hunk_commit, "paths": sc.op_commit_paths}[k]()
                sc.check_blame_tip(where, complete=False, rule="C03")
            elif r < 0.8:
                # AI work first, so that there is something to discard; sometimes turned into INITIAL-only pending state by a
                # commit of other files (line-number claims with no content snapshot left)
                if rng.random() < 0.7:
                    sc.do_edit(author=rng.choice(sc.sessions))
                    if rng.random() < 0.4 and len(sc.files) > 1:
                        others = [x for x in sc.files if x != sc.log[-1][1]]
                        sc.do_edit(author="human", f=rng.choice(others), kinds=["ins"])
                        if sc.profile.get("unstaged_replacement_hunks", True):
                            sc.g("add", "--", sc.log[-1][1]); sc.g("commit", "-q", "-m", "only another file")
                        else:
                            # finding D82: a plain `git commit` would also take whatever else is staged (after reset --soft, git mv ...)
                            # while the work tree differs from it by hunks that remove lines; commit exactly this path instead
                            other = sc.log[-1][1]
                            sc.g("add", "--", other); sc.g("commit", "-q", "-m", "only another file", "--", other)
                ch = sc.op_destructive()
                destr += 1
                sc.human_overwrite_same_lines()
                if rng.random() < 0.6:
                    sc.commit_all("after-" + ch)
                    sc.check_blame_tip(where, complete=False, rule="C03")
            elif r < 0.9:
                k = rng.choice(["rebase", "cherry", "merge", "squash", "stash", "reset", "switch", "range-shapes", "range-shapes"] + (["amend"] if sc.profile.get("amend_human_edit", True) else []))
                if k in ("rebase", "cherry", "merge", "squash", "range-shapes"):
                    sc.commit_all("pre")
                if k == "range-shapes":
                    # rewritten ranges for which a note may be copied for SOME commits only (C15's shapes): a copied note whose line
                    # numbers describe another layout credits a person's line
                    from . import c15
                    rng.choice([c15.partial_precondition_cherry_pick, c15.partial_precondition_cherry_pick, c15.partial_precondition_rebase, c15.dropped_duplicate_rebase])(sc)
                else:
                    {"rebase": sc.op_rebase, "cherry": sc.op_cherry_pick, "merge": sc.op_merge, "squash": sc.op_squash_merge,
                     "stash": sc.op_stash, "reset": sc.op_reset, "amend": sc.op_amend, "switch": sc.op_switch_carry}[k]()
            else:
                sc.human_overwrite_same_lines()
            sc.after_step(where)
            if sc.viol or sc.inconclusive:
                break
        if not sc.viol and not sc.inconclusive:
            if sc.in_progress():
                sc.inconclusive = "operation still in progress at end: %s" % sc.in_progress()
            else:
                sc.commit_all("final")
                sc.after_step("final")
                sc.check_blame_tip("final", complete=False, rule="C03")
        sc.stats["destructive_ops"] += destr
        checked = sc.stats["note_ai_lines_checked"] + sc.stats["blame_lines"]
        return C.finish(sc, prof, index, nontrivial=destr > 0 and checked > 0)
    finally:
        sc.destroy()


ASSUMPTIONS = ["ledger oracle: AI claim on a line is sound iff that session introduced the line's content key (decoys: ever introduced)",
               "the same monitor also rides on every other scenario-based check (C01, C02, C04, C08, C12-C15)",
               "bounded-exhaustive part: pending-state kind x discarding command x follow-up table (vf/props/c03_matrix.py); cells in which the "
               "command does not discard the work are counted as not applicable"]


def run_matrix(rep, tier):
    """The deterministic (pending state x discarding command x follow-up) table; see c03_matrix.py."""
    from . import c03_matrix as M
    from .. import runner as R
    known = [e for e in R.load_known("C03") if e.get("status") == "open" and e.get("cells")]
    cells = M.cells()
    if tier != "thorough":
        cells = [c for c in cells if c.endswith("|person")]    # the other two follow-ups (unreported person, another session) run in the thorough tier
    res = R.run_pool(M.run_cell, [dict(cell=c) for c in cells], 240 if tier != "thorough" else 600)
    by_finding = {}
    failing = []
    for r in res:
        rep.evaluations += 1
        for k, v in (r.get("stats") or {}).items():
            if isinstance(v, (int, float)):
                rep.counters[k] += v
        rep.counters["matrix_cells_run"] += 1
        if r.get("inconclusive"):
            rep.inconclusive.append(dict(case=r.get("case"), why=str(r["inconclusive"])[:300]))
            continue
        if not r.get("applicable"):
            rep.counters["matrix_cells_not_applicable"] += 1
            continue
        rep.sigs.add(r["sig"])
        if not r.get("viol"):
            rep.counters["matrix_cells_held"] += 1
            continue
        kinds = sorted({v["kind"] for v in r["viol"]})
        e = M.classify(r["cell"], known)
        if e is not None and all(k.split("@")[0] in e.get("cell_kinds", []) for k in kinds):
            by_finding.setdefault(e["id"], []).append(r["cell"])
            rep.counters["matrix_cells_failing_known"] += 1
        else:
            failing.append(r["cell"])
            for k in kinds:
                rep.viol_kinds[k] += 1
            if len(rep.violations) < 8:
                rep.violations.append((kinds[0], rep.write_replay(r, "matrix")))
    for fid, cs in sorted(by_finding.items()):
        rep.known_finding("%s matrix cells (pending state|discard|follow-up) failing as listed: %s" % (fid, " ".join(sorted(cs))))
    rep.extra["matrix"] = dict(cells_total=len(cells), known_failing={k: sorted(v) for k, v in by_finding.items()}, unlisted_failing=failing)
    if len(res) < len(cells):
        rep.inconclusive.append(dict(case="matrix", why="only %d of %d cells finished inside the budget" % (len(res), len(cells))))


def main(tier, seed, replay=None):
    import json
    from .. import runner as R
    if replay:
        j = json.load(open(replay))
        if (j.get("case") or {}).get("cell"):
            from . import c03_matrix as M
            rep = R.Report("C03", tier, seed, "exploration", RULE, ASSUMPTIONS)
            r = R._worker((M.run_cell, j["case"]))
            for l in r.get("log") or []:
                R.log("  ", l)
            rep.add_results([r])
            return rep.finish(min_nontrivial=0)
        return C.standard_main("C03", run_case, RULE, "exploration", ASSUMPTIONS, tier, seed, replay, 50, 480)
    return C.standard_main("C03", run_case, RULE, "exploration", ASSUMPTIONS, tier, seed, replay, 50, 480, before_pool=lambda rep: run_matrix(rep, tier))
