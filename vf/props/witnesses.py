"""Pinned witnesses for known findings (open) and repaired defects (fixed)."""
import importlib
import json
import os

from .. import runner as R


def replay_for(rep, prop):
    """Replay the property's witnesses. open + still violating with same signature => KNOWN-FINDING line;
    open + different signature => violation; fixed + violating => violation (the defect returned)."""
    for e in R.load_known(prop):
        wname = e.get("witness")
        if not wname:
            continue
        try:
            if wname.startswith("recorded:"):
                from .. import recorded
                kinds, detail = recorded.replay_file(os.path.join(R.VERIF, wname[len("recorded:"):]))
            else:
                modname, fn = wname.rsplit(".", 1)
                mod = importlib.import_module("vf.witness." + modname)
                kinds, detail = getattr(mod, fn)()
        except Exception as ex:  # witness could not run: inconclusive, not a violation
            rep.inconclusive.append(dict(case="witness " + wname, why=repr(ex)[:300]))
            continue
        rep.counters["witnesses_replayed"] += 1
        sig = e["signature"]
        if e.get("status") == "open":
            if not kinds:
                R.log("[%s] open finding %s no longer reproduces (witness silent)" % (prop, e["id"]))
            elif sig in kinds:
                rep.known_finding("%s %s" % (e["id"], e["what"]))
                other = [k for k in kinds if k != sig and k not in e.get("also", [])]
                if other:
                    rep.direct_violation(other[0], dict(witness=wname, kinds=kinds, detail=detail))
            else:
                rep.direct_violation(kinds[0], dict(witness=wname, kinds=kinds, detail=detail, expected_signature=sig))
        else:  # fixed: must pass
            if kinds:
                rep.direct_violation(kinds[0], dict(witness=wname, kinds=kinds, detail=detail, note="fixed defect returned"))
