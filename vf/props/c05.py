"""C05 — every authorship note is well-formed, self-contained and matches its commit (global monitor + notes-tree layouts)."""
import hashlib
import random

from ..ops import Hist
from . import common as C

RULE = ("histories from the commit / partial-commit / amend / rebase / cherry-pick / squash / CI-rewrite (server-side squash or rebase merge by plain git, then `git-ai ci local merge` / `squash-authorship`) generators with unusual file names always on; "
        "before rewrite steps refs/notes/ai is re-laid-out with plumbing (flat, 2/38, 2/2/36, mixed; thorough: plus thousands of synthetic "
        "notes so that git itself picks a deeper fan-out); after EVERY step every note is read through `git ls-tree -r`/`cat-file` and "
        "checked by an independent v3 parser: one note per object under any spelling, parses, schema version, base_commit_sha == commit, "
        "paths exist in the commit, 1 <= line <= line count, sorted non-overlapping ranges, every hash has a prompt record, no human entry. "
        "non-trivial = at least one re-layout and one note written afterwards; distinct = (layout, op sequence) signatures")

LAYOUTS = ["flat", "2/38", "2/2/36", "mixed"]


def relayout(sc, layout, synthetic=0):
    """Rewrite the notes tree with another fan-out spelling (git itself reads all of them)."""
    tip = sc.notes_tip()
    if not tip:
        return False
    m = sc.nr.mapping()
    lines = ["commit refs/notes/ai", "committer relayout <r@l> %d +0000" % (1767225600 + sc.w.step), "data 0", "from %s" % tip, "deleteall"]
    rng = sc.rng
    def path(obj, lay):
        if lay == "flat":
            return obj
        if lay == "2/38":
            return obj[:2] + "/" + obj[2:]
        return obj[:2] + "/" + obj[2:4] + "/" + obj[4:]
    for obj, ents in m.items():
        lay = rng.choice(LAYOUTS[:3]) if layout == "mixed" else layout
        lines.append("M 100644 %s %s" % (ents[0][0], path(obj, lay)))
    if synthetic:
        blob = sc.w.ogit("hash-object", "-w", "--stdin", input=b"synthetic\n").strip()
        for i in range(synthetic):
            fake = hashlib.sha1(("syn%d-%d" % (sc.index, i)).encode()).hexdigest()
            lines.append("M 100644 %s %s" % (blob, path(fake, "2/38" if layout == "mixed" else layout)))
    p = sc.w.ogit("fast-import", "--quiet", "--force", input=("\n".join(lines) + "\n\n").encode(), raw=True)
    if p.rc != 0:
        raise RuntimeError("relayout failed: " + p.stderr[-300:])
    sc.log.append(["relayout", layout, synthetic])
    sc.ops.append("relayout:" + layout)
    sc.nr._blob.clear()
    return True


# names that the note format has to quote, with the quote character at the edges and inside, next to a control name
EDGE_NAMES = ['trail"', '"lead.txt', 'notes "draft"', '"quoted".txt', 'dq"uote.txt', "sp ace.txt", "plain.txt"]


def name_cells():
    return ["%s|%s" % (n, op) for n in EDGE_NAMES for op in ("rebase", "cherry-pick")]


def run_name_cell(case):
    """Deterministic part: an agent's three lines at the end of a file with a hostile NAME are committed on a branch; the base branch
    inserts three lines at the top of the same file (so the rewrite cannot copy the note, it has to re-map it through the new content);
    rebase / cherry-pick; every note is validated against its commit, and the re-mapped note must list the agent's lines where they
    now are."""
    from ..witness.common import Script

    class S(Script, Hist):
        pass
    name, op = case["cell"].rsplit("|", 1)
    s = S("nm", files=1)
    try:
        f0 = [s.line("human") for _ in range(8)]
        s.human_write(name, f0); s.human_write("other.txt", [s.line("human")]); s.commit_all("init")
        s.g("checkout", "-q", "-b", "feat")
        s.ai_write("S1", name, f0 + [s.line("S1"), s.line("S1"), s.line("S1")]); s.commit_all("feat: agent lines at the end")
        s.g("checkout", "-q", "main")
        s.human_write(name, [s.line("human"), s.line("human"), s.line("human")] + f0); s.commit_all("main: a person's lines at the top")
        if op == "rebase":
            s.g("checkout", "-q", "feat"); s.g("rebase", "main")
        else:
            s.g("cherry-pick", "feat")
        s.after_step("name cell " + case["cell"])
        if not s.in_progress():
            s.check_commit_exact(s.head(), "name cell " + case["cell"], rule="C05")
        r = s.finish()
        r.update(index=case.get("index", 0), nontrivial=True, sig="name:" + case["cell"], cell=case["cell"])
        r["sample"] = dict(cell=case["cell"], steps=s.log[:30])
        return r
    finally:
        s.destroy()


def run_case(case):
    if case.get("cell"):
        return run_name_cell(case)
    seed, index, flags_off = case["seed"], case["index"], case.get("flags_off", [])
    prng = random.Random("%s:C05p:%s" % (seed, index))
    prof = C.base_profile(prng, flags_off)
    prof["hostile_names"] = True
    prof["files"] = prng.choice([2, 3, 4])
    prof["extreme_names"] = prng.random() < 0.4
    sc = Hist("C05", seed, index, prof)
    try:
        rng = sc.rng
        C.setup_repo(sc)
        for _ in range(rng.choice([1, 2])):
            for _ in range(rng.choice([1, 2, 3])):
                sc.do_edit()
            sc.commit_all("hist")
        sc.after_step("hist")
        written_after = 0
        relayouts = 0
        synthetic = 0
        if case.get("tier") == "thorough" and index % 40 == 0:
            synthetic = rng.choice([300, 3000])
        for k in range(rng.choice([2, 3, 4])):
            layout = rng.choice(LAYOUTS)
            if relayout(sc, layout, synthetic if k == 0 else 0):
                relayouts += 1
                sc.after_step("relayout %s" % layout)
            before = sc.notes_digest()
            op = rng.choice(["commit", "commit", "partial", "amend", "rebase", "rebase-dr", "cherry", "cherry-cc", "squash", "ci", "stash"])
            where = "op %d %s after %s" % (k, op, layout)
            if op == "commit":
                sc.do_edit(); sc.commit_all("c")
            elif op == "partial":
                sc.do_edit(); sc.do_edit(); sc.op_hunk_commit(); sc.commit_all("rest")
            elif op == "stash":
                sc.do_edit(author=rng.choice(sc.sessions)); sc.op_stash(); sc.commit_all("after-stash")
            elif op == "amend":
                sc.do_edit(author=rng.choice(sc.sessions), kinds=["ins", "rep"]); sc.commit_all("to-amend")
                sc.do_edit(author=rng.choice(sc.sessions), kinds=["ins", "rep"]); sc.op_amend()
            else:
                sc.commit_all("pre")
                {"rebase": sc.op_rebase, "rebase-dr": sc.op_rebase_delete_recreate, "cherry": sc.op_cherry_pick, "cherry-cc": sc.op_cherry_pick_concluded_by_commit, "squash": sc.op_squash_merge, "ci": sc.op_ci_rewrite}[op]()
            if sc.notes_digest() != before:
                written_after += 1
            sc.after_step(where)
            if sc.viol or sc.inconclusive:
                break
        if not sc.viol and not sc.inconclusive and not sc.in_progress():
            sc.commit_all("final")
            sc.after_step("final")
        sc.stats["relayouts"] += relayouts
        sc.stats["notes_written_after_relayout"] += written_after
        return C.finish(sc, prof, index, nontrivial=relayouts > 0 and written_after > 0)
    finally:
        sc.destroy()


def run_name_cells(rep):
    from .. import runner as R
    res = [R._worker((run_case, dict(cell=c, index=900000 + i, seed=0))) for i, c in enumerate(name_cells())]
    rep.add_results(res)
    rep.counters["name_cells_run"] += len(res)


def main(tier, seed, replay=None):
    return C.standard_main("C05", run_case, RULE, "exploration",
                           ["the same monitor runs after every step of every other scenario-based check", "notes written by other tools into refs/notes/ai are out of scope",
                            "trusts git plumbing (ls-tree, cat-file) and the published v3 spec"],
                           tier, seed, replay, 50, 480, before_pool=run_name_cells)
