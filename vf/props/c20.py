"""C20 — agent hook ingestion never fails the agent and never escapes the repository."""
import copy
import glob
import json
import os
import random
import subprocess

from .. import runner as R
from ..world import World, BIN, run
from . import inproc, witnesses

RULE = ("(a) CLI: `git-ai checkpoint <preset> --hook-input <payload | stdin>` for the 12 presets with seed payloads (superset of the fields each "
        "preset reads) mutated structurally (fields dropped / renamed / retargeted, wrong types, nulls, deep nesting, 70 kB-10 MB strings, truncated "
        "JSON, BOM, non-UTF-8, non-JSON, empty) x file-path classes (absolute, relative, `..`, missing, directory, symlink out of the repository, other "
        "repository, nested repository, bare repository, no repository, binary file) x layouts (single, nested, multi-repo workspace, bare, none) x "
        "cwd; oracle: exit status 0, not killed by a signal, within the watchdog, no `panicked at`; afterwards every checkpoints.jsonl / INITIAL in the "
        "world parses, every recorded file lies inside the work tree of the repository that holds the log and not inside a nested repository; files "
        "of no repository are recorded nowhere. (b) in-process: every preset's run() on mutated payloads under catch_unwind never unwinds. "
        "non-trivial = the command recorded at least one entry or the payload was malformed; distinct = (preset, mutation, path class, layout)")

PRESETS = ["claude", "codex", "gemini", "continue-cli", "cursor", "github-copilot", "amp", "ai_tab", "droid", "opencode", "agent-v1", "mock_ai"]
EVENTS = {"claude": ["PreToolUse", "PostToolUse"], "gemini": ["BeforeTool", "AfterTool"], "continue-cli": ["PreToolUse", "PostToolUse"],
          "cursor": ["beforeSubmitPrompt", "afterFileEdit", "beforeReadFile"], "github-copilot": ["before_edit", "after_edit", "PreToolUse", "PostToolUse"],
          "droid": ["PreToolUse", "PostToolUse"], "ai_tab": ["before_edit", "after_edit"], "codex": ["agent-turn-complete"], "amp": ["PreToolUse", "PostToolUse"],
          "opencode": ["PreToolUse", "PostToolUse"], "agent-v1": [None], "mock_ai": [None]}


def seed_payload(preset, repo, f, tp, rng):
    ev = rng.choice(EVENTS[preset])
    p = {"cwd": repo, "workspace_roots": [repo], "workspace_folder": repo, "workspaceFolder": repo, "session_id": "s1", "sessionId": "s1",
         "conversation_id": "c-%d" % rng.randrange(100), "thread_id": "T-1", "model": "m", "transcript_path": tp, "transcriptPath": tp,
         "chat_session_path": tp, "chatSessionPath": tp, "chat_session_id": "cs1", "tool_name": "Edit", "toolName": "Edit",
         "tool_input": {"file_path": f, "path": f, "filePath": f, "old_string": "a", "new_string": "b"}, "toolInput": {"file_path": f},
         "file_path": f, "filePath": f, "edits": [{"old_string": "a", "new_string": "b"}], "will_edit_filepaths": [f], "edited_filepaths": [f],
         "repo_working_dir": repo, "agent_name": "tool", "transcript": {"messages": [{"type": "user", "text": "x"}]}, "dirty_files": {f: "dirty content\n"},
         "tool_response": {"filePath": f}, "generation_id": "g1", "completion_id": "k1"}
    if ev:
        p["hook_event_name"] = ev
        p["hookEventName"] = ev
    if preset in ("agent-v1", "mock_ai"):
        p["type"] = rng.choice(["human", "ai_agent"])
    return p


def mutate(rng, v, depth=0):
    if isinstance(v, dict) and v:
        k = rng.choice(list(v))
        r = rng.randrange(10)
        if r == 0:
            del v[k]
        elif r == 1:
            v[k + "_x"] = v.pop(k)
        elif r == 2:
            v[k] = None
        elif r == 3:
            v[k] = 12345
        elif r == 4:
            v[k] = ["a", 1, None, {"b": []}]
        elif r == 5:
            v[k] = "x" * rng.choice([0, 1, 70000])
        elif r == 6:
            v[k] = {"nested": {"deep": {"deeper": [[[[[]]]]]}}}
        elif r == 7:
            v[k] = "../../../etc/passwd"
        elif depth < 4:
            v[k] = mutate(rng, v[k], depth + 1)
    elif isinstance(v, list):
        if not v:
            v.append({"x": 1})
        else:
            i = rng.randrange(len(v))
            r = rng.randrange(4)
            if r == 0:
                del v[i]
            elif r == 1:
                v[i] = None
            elif r == 2:
                v.extend([copy.deepcopy(v[i])] * 50)
            elif depth < 4:
                v[i] = mutate(rng, v[i], depth + 1)
    elif isinstance(v, str):
        v = rng.choice(["", "﻿bom", "é中🙂\u0000", v + "/../.."])
    else:
        v = "was-not-a-string"
    return v


def build_layout(w, layout):
    """Returns dict: repos (work tree roots incl. nested), cwd candidates, files by class."""
    root = w.root
    g = lambda *a, cwd: w.ogit(*a, cwd=cwd)
    repos = []
    def mkrepo(path, bare=False):
        os.makedirs(path, exist_ok=True)
        w.ogit("init", "-q", *(["--bare"] if bare else []), ".", cwd=path)
        if not bare:
            for n in ("a.txt", "dir/b.txt"):
                p = os.path.join(path, n); os.makedirs(os.path.dirname(p), exist_ok=True)
                open(p, "w").write("one\ntwo\nthree\n")
            w.ogit("-c", "user.name=u", "-c", "user.email=u@x", "add", "-A", cwd=path)
            w.ogit("-c", "user.name=u", "-c", "user.email=u@x", "commit", "-q", "-m", "init", cwd=path)
            repos.append(path)
    main = os.path.join(root, "repo")
    other = os.path.join(root, "ws", "other")
    bare = os.path.join(root, "bare.git")
    plain = os.path.join(root, "plain")
    os.makedirs(plain, exist_ok=True)
    open(os.path.join(plain, "outside.txt"), "w").write("outside any repository\n")
    if layout in ("single", "nested", "multi"):
        if os.path.isdir(os.path.join(main, ".git")):
            repos.append(main)
            for n in ("a.txt", "dir/b.txt"):
                p = os.path.join(main, n); os.makedirs(os.path.dirname(p), exist_ok=True)
                open(p, "w").write("one\ntwo\nthree\n")
            w.git("add", "-A", plain=True); w.git("commit", "-q", "-m", "init", plain=True)
        else:
            mkrepo(main)
    nested = None
    if layout == "nested":
        nested = os.path.join(main, "vendor", "inner")
        mkrepo(nested)
    sibling = os.path.join(root, "repo-api")          # a sibling whose path merely string-extends the main repository's path
    if layout == "multi":
        mkrepo(other)
        mkrepo(os.path.join(root, "ws", "third"))
        mkrepo(sibling)
    if layout == "bare":
        mkrepo(bare, bare=True)
    cwds = {"single": [main, os.path.join(main, "dir")], "nested": [main, nested], "multi": [os.path.join(root, "ws"), main, other],
            "bare": [bare, plain], "none": [plain]}[layout]
    files = {"outside": os.path.join(plain, "outside.txt"), "missing": os.path.join(cwds[0], "does-not-exist.txt"), "dotdot": "../plain/outside.txt",
             "dir": cwds[0], "empty": ""}
    if layout in ("single", "nested", "multi"):
        files.update({"abs": os.path.join(main, "a.txt"), "rel": "a.txt", "sub": os.path.join(main, "dir", "b.txt")})
        ln = os.path.join(main, "link-out.txt")
        if not os.path.lexists(ln):
            os.symlink(os.path.join(plain, "outside.txt"), ln)
        files["symlink-out"] = ln
        open(os.path.join(main, "bin.dat"), "wb").write(bytes(range(256)) * 4)
        files["binary"] = os.path.join(main, "bin.dat")
        # a tracked file that has been replaced by a named pipe nobody writes to: reading it would block for ever
        fifo = os.path.join(main, "pipe.txt")
        if not os.path.lexists(fifo):
            open(fifo, "w").write("one\ntwo\n")
            w.git("add", "pipe.txt", plain=True, cwd=main, tick=False); w.git("commit", "-q", "-m", "a file that becomes a pipe", plain=True, cwd=main, tick=False)
            os.remove(fifo); os.mkfifo(fifo)
        files["fifo"] = fifo
    if nested:
        files["nested-repo"] = os.path.join(nested, "a.txt")
    if layout == "multi":
        files["other-repo"] = os.path.join(other, "a.txt")
        files["sibling-prefix-repo"] = os.path.join(sibling, "a.txt")
    if layout == "bare":
        files["bare"] = os.path.join(bare, "HEAD")
    return dict(repos=repos, cwds=cwds, files=files, main=main, nested=nested)


def scan_logs(w, lay):
    """Every journal in the world parses and names only files of its own repository."""
    probs = []
    n_entries = 0
    nested_roots = [r for r in lay["repos"]]
    for dp, dn, fn in os.walk(w.root):
        if os.path.basename(dp) != "working_logs":
            continue
        gitdir = os.path.dirname(os.path.dirname(dp))            # .../.git/ai/working_logs -> .../.git
        worktree = os.path.dirname(gitdir) if os.path.basename(gitdir) == ".git" else None
        for d in dn:
            for name in ("checkpoints.jsonl", "INITIAL"):
                p = os.path.join(dp, d, name)
                if not os.path.exists(p):
                    continue
                try:
                    txt = open(p, encoding="utf-8").read()
                    if name == "INITIAL":
                        files = list(json.loads(txt).get("files", {}).keys()) if txt.strip() else []
                    else:
                        files = []
                        for ln in txt.split("\n"):
                            if ln.strip():
                                files += [e["file"] for e in json.loads(ln).get("entries", [])]
                except (ValueError, KeyError, TypeError, UnicodeDecodeError) as e:
                    probs.append(dict(kind="C20/journal-unreadable", path=p.replace(w.root, "<ROOT>"), err=repr(e)[:200]))
                    continue
                for f in files:
                    n_entries += 1
                    if worktree is None:
                        probs.append(dict(kind="C20/entry-in-bare-or-foreign-gitdir", log=p.replace(w.root, "<ROOT>"), file=f))
                        continue
                    if os.path.isabs(f) or ".." in f.split("/"):
                        probs.append(dict(kind="C20/entry-path-not-repo-relative", log=p.replace(w.root, "<ROOT>"), file=f))
                        continue
                    full = os.path.join(worktree, f)
                    real = os.path.realpath(full)
                    inner = [r for r in nested_roots if r != worktree and r.startswith(worktree + "/") and (full + "/").startswith(r + "/")]
                    if inner:
                        probs.append(dict(kind="C20/entry-belongs-to-nested-repository", log=p.replace(w.root, "<ROOT>"), file=f, nested=inner[0].replace(w.root, "<ROOT>")))
        dn[:] = []
    return probs, n_entries


def recorded_files(w, repo_root):
    """Files named by the live working logs of the repository whose work tree is repo_root."""
    out = set()
    for p in glob.glob(os.path.join(repo_root, ".git", "ai", "working_logs", "*", "checkpoints.jsonl")):
        if "/old-" in p:
            continue
        try:
            for ln in open(p, encoding="utf-8"):
                if ln.strip():
                    j = json.loads(ln)
                    if j.get("kind") == "AiAgent" or j.get("agent_id"):
                        out.update(e["file"] for e in j.get("entries", []))
        except (ValueError, OSError):
            pass
    return out


def completeness_probe(w, lay, rng, viol, stats, only=None, flags=()):
    """A well-formed agent-v1 report of a really edited file must be recorded in the repository that contains the file (and, by
    scan_logs, nowhere else) - whichever repository the hook was started in."""
    classes = [c for c in ("abs", "sub", "other-repo", "sibling-prefix-repo", "nested-repo") if c in lay["files"] and ("probe:" + c) not in flags]
    if only:
        classes = [c for c in classes if c == only]
    if not classes:
        return
    fclass = rng.choice(classes)
    f = lay["files"][fclass]
    owner = max((r for r in lay["repos"] if (f + "/").startswith(r + "/")), key=len, default=None)
    if owner is None:
        return
    cwd = rng.choice([c for c in lay["cwds"] if os.path.isdir(os.path.join(c, ".git")) or c == lay["main"]] or [lay["main"]])
    pre = {"type": "human", "repo_working_dir": cwd, "will_edit_filepaths": [f]}
    run([BIN, "checkpoint", "agent-v1", "--hook-input", json.dumps(pre)], cwd, w.env(), timeout=60)
    with open(f, "a") as fh:
        fh.write("line written by the agent %d\n" % rng.randrange(10**6))
    post = {"type": "ai_agent", "repo_working_dir": cwd, "edited_filepaths": [f], "transcript": {"messages": [{"type": "user", "text": "x"}]},
            "agent_name": "tool", "model": "m", "conversation_id": "CP%d" % rng.randrange(10**6)}
    pr = run([BIN, "checkpoint", "agent-v1", "--hook-input", json.dumps(post)], cwd, w.env(), timeout=60)
    stats["completeness_probes"] = stats.get("completeness_probes", 0) + 1
    rel = os.path.relpath(f, owner)
    if pr.rc == 0 and rel not in recorded_files(w, owner):
        viol.append(dict(kind="C20/edited-file-not-recorded-in-its-repository", path_class=fclass, file=f.replace(w.root, "<ROOT>"),
                         owner=owner.replace(w.root, "<ROOT>"), cwd=cwd.replace(w.root, "<ROOT>"), stderr=pr.stderr[-300:]))


def multi_file_probe(w, lay, layout, rng, viol, stats, flags=()):
    """One well-formed report naming SEVERAL really edited files of different repositories (plus one of no repository), in any order,
    sent from a directory that is no repository (workspace mode) or from another repository (cross-repo mode): every file must be
    recorded in the nearest enclosing repository; scan_logs then checks that nothing is recorded anywhere else.
    Finding D53 (open): a hook started inside the OUTER repository drops files of a repository nested in it - so a list that names a
    nested-repository file is never sent from the outer repository."""
    classes = [c for c in ("abs", "sub", "other-repo", "sibling-prefix-repo", "nested-repo", "outside") if c in lay["files"]]
    k = rng.choice([2, 3, 3, 4])
    chosen = rng.sample(classes, min(k, len(classes)))
    if layout == "nested" and "nested-repo" not in chosen and rng.random() < 0.7:
        chosen[rng.randrange(len(chosen))] = "nested-repo"
        chosen = list(dict.fromkeys(chosen))
    rng.shuffle(chosen)
    files = [lay["files"][c] for c in chosen]
    cwds = [w.root, os.path.join(w.root, "plain")]
    if layout == "multi":
        cwds += [os.path.join(w.root, "ws"), os.path.join(w.root, "ws", "third")]
    if lay.get("nested"):
        cwds.append(lay["nested"])
    if "nested-repo" not in chosen:
        cwds.append(lay["main"])
    cwd = rng.choice(cwds)
    style = rng.choice(["abs", "abs", "rel"])
    names = [f if style == "abs" else os.path.relpath(f, cwd) for f in files]
    preset = rng.choice(["agent-v1", "agent-v1", "amp"])
    conv = "MP%d" % rng.randrange(10**6)
    if preset == "agent-v1":
        pre = {"type": "human", "repo_working_dir": cwd, "will_edit_filepaths": names}
        post = {"type": "ai_agent", "repo_working_dir": cwd, "edited_filepaths": names, "transcript": {"messages": [{"type": "user", "text": "x"}]},
                "agent_name": "tool", "model": "m", "conversation_id": conv}
    else:
        names = files   # amp reports absolute paths
        pre = {"hook_event_name": "PreToolUse", "thread_id": "T-" + conv, "cwd": cwd, "tool_input": {"paths": names}}
        post = {"hook_event_name": "PostToolUse", "thread_id": "T-" + conv, "cwd": cwd, "edited_filepaths": names}
    via_stdin = rng.random() < 0.3
    def send(payload):
        t = json.dumps(payload)
        return run([BIN, "checkpoint", preset, "--hook-input", "stdin" if via_stdin else t], cwd, w.env(), input=t.encode() if via_stdin else None, timeout=60)
    send(pre)
    for f in files:
        with open(f, "a") as fh:
            fh.write("line written by the agent %d\n" % rng.randrange(10**6))
    pr = send(post)
    stats["multi_file_probes"] = stats.get("multi_file_probes", 0) + 1
    what = dict(step="multi-file probe", preset=preset, classes=chosen, cwd=cwd.replace(w.root, "<ROOT>"), style=style, stdin=via_stdin, layout=layout)
    if pr.rc != 0 or b"panicked at" in pr.err:
        viol.append(dict(kind="C20/nonzero-exit" if pr.rc != 0 else "C20/panic", rc=pr.rc, stderr=pr.stderr[-300:], **what))
        return
    cwd_in_repo = any((cwd + "/").startswith(r + "/") for r in lay["repos"])
    for c, f in zip(chosen, files):
        owner = max((r for r in lay["repos"] if (f + "/").startswith(r + "/")), key=len, default=None)
        if owner is None:
            continue
        if not cwd_in_repo and not (os.path.realpath(f) + "/").startswith(os.path.realpath(cwd) + "/"):
            # workspace mode looks for repositories only below the workspace root (the directory the hook was started in): a file
            # outside it is deliberately ignored; scan_logs still checks that it is not recorded in a wrong place
            stats["multi_file_probe_outside_workspace"] = stats.get("multi_file_probe_outside_workspace", 0) + 1
            continue
        stats["multi_file_probe_files"] = stats.get("multi_file_probe_files", 0) + 1
        if os.path.relpath(f, owner) not in recorded_files(w, owner):
            viol.append(dict(kind="C20/edited-file-not-recorded-in-its-repository", path_class=c, file=f.replace(w.root, "<ROOT>"),
                             owner=owner.replace(w.root, "<ROOT>"), stderr=pr.stderr[-300:], **what))


def run_case(case):
    seed, index = case["seed"], case["index"]
    rng = random.Random("%s:C20:%s" % (seed, index))
    layout = rng.choice(["single", "single", "nested", "multi", "bare", "none"])
    w = World(name="C20-%d" % index, mode="wrapper", init=layout in ("single", "nested", "multi"))
    viol = []
    stats = dict(invocations=0, entries_recorded=0, malformed=0, valid=0)
    sigs = set()
    try:
        lay = build_layout(w, layout)
        tp = os.path.join(w.root, "transcript.jsonl")
        open(tp, "w").write(json.dumps({"type": "user", "message": {"role": "user", "content": "hi"}}) + "\n")
        what = dict(step="completeness probe", layout=layout)
        if layout in ("single", "nested", "multi") and rng.random() < 0.5:
            completeness_probe(w, lay, rng, viol, stats, flags=case.get("flags_off") or ())
            probs, n = scan_logs(w, lay)
            for pb in probs:
                pb.update(dict(step="completeness probe", layout=layout)); viol.append(pb)
        if layout in ("nested", "multi") and not viol and rng.random() < 0.6:
            multi_file_probe(w, lay, layout, rng, viol, stats, flags=case.get("flags_off") or ())
            probs, n = scan_logs(w, lay)
            for pb in probs:
                pb.update(dict(step="multi-file probe", layout=layout)); viol.append(pb)
        for k in range(rng.choice([2, 3, 4]) if not viol else 0):
            preset = rng.choice(PRESETS)
            fclass = rng.choice(sorted(lay["files"]))
            f = lay["files"][fclass]
            cwd = rng.choice(lay["cwds"])
            repo_field = rng.choice([lay["main"], cwd, os.path.join(w.root, "plain"), "relative/dir", ""])
            p = seed_payload(preset, repo_field, f, tp, rng)
            how = rng.choice(["valid", "valid", "mutated", "mutated", "mutated", "truncated", "bom", "non-json", "empty", "array", "huge", "non-utf8", "null"])
            via_stdin = rng.random() < 0.3
            raw = None
            if how == "valid":
                text = json.dumps(p)
            elif how == "mutated":
                for _ in range(rng.randrange(1, 4)):
                    p = mutate(rng, p)
                text = json.dumps(p)
            elif how == "truncated":
                t = json.dumps(p); text = t[:rng.randrange(len(t))]
            elif how == "bom":
                text = "﻿" + json.dumps(p)
            elif how == "non-json":
                text = "this is not json {{{"
            elif how == "empty":
                text = ""
            elif how == "array":
                text = "[1, 2, 3]"
            elif how == "null":
                text = "null"
            elif how == "huge":
                p["transcript"] = {"messages": [{"type": "user", "text": "y" * (10 * 1024 * 1024)}]}
                text = json.dumps(p); via_stdin = True
            else:
                text = None; raw = b'{"cwd": "\xff\xfe\x80", "file_path": "\xc3\x28"}'; via_stdin = True
            stats["invocations"] += 1
            stats["valid" if how == "valid" else "malformed"] += 1
            argv = [BIN, "checkpoint", preset, "--hook-input", "stdin" if via_stdin else text]
            if not via_stdin and len(text) > 100000:
                via_stdin = True; argv[-1] = "stdin"
            pr = run_hook(argv, cwd, w.env(), (raw if raw is not None else text.encode("utf-8", "surrogatepass")) if via_stdin else None)
            what = dict(preset=preset, how=how, path_class=fclass, layout=layout, cwd=cwd.replace(w.root, "<ROOT>"), stdin=via_stdin, payload=(text or repr(raw))[:300])
            if pr.rc == -998:
                viol.append(dict(kind="C20/hook-blocked-for-ever", note="after 12 s the process was asleep and had used no CPU time for 2 s (logical progress, not wall clock)", **what))
            elif pr.rc == -999:
                return dict(index=index, viol=[], stats=stats, sig="", nsigs=[], log=[], nontrivial=False, inconclusive="watchdog: hook still busy after 60 s (%s)" % preset, sample=dict(last=what))
            elif pr.rc != 0:
                viol.append(dict(kind="C20/nonzero-exit" if pr.rc > 0 else "C20/killed-by-signal", rc=pr.rc, stderr=pr.stderr[-300:], **what))
            if b"panicked at" in pr.err:
                viol.append(dict(kind="C20/panic", stderr=pr.stderr[-400:], **what))
            probs, n = scan_logs(w, lay)
            stats["entries_recorded"] = n
            for pb in probs:
                pb.update(what); viol.append(pb)
            sigs.add("%s|%s|%s|%s" % (preset, how, fclass, layout))
            if viol:
                break
        return dict(index=index, viol=viol, stats=stats, sig="|".join(sorted(sigs)), nsigs=sorted(sigs), log=[], nontrivial=True, inconclusive=None,
                    sample=dict(layout=layout, last=what))
    finally:
        w.destroy()


def run_hook(argv, cwd, env, data):
    """Run one hook invocation. A hook that never returns fails the agent, but a wall-clock limit alone is no verdict on a loaded
    machine: after 12 s the process is looked at - asleep (state S) with its CPU time not advancing over 2 s means it is blocked
    (rc -998, a violation); still computing means slow (it gets 60 s in all, then rc -999 = inconclusive)."""
    import time
    from ..world import Proc
    p = subprocess.Popen(argv, cwd=cwd, env=env, stdin=subprocess.PIPE if data is not None else subprocess.DEVNULL, stdout=subprocess.PIPE, stderr=subprocess.PIPE)

    def cpu():
        try:
            f = open("/proc/%d/stat" % p.pid).read().rsplit(")", 1)[1].split()
            return f[0], int(f[11]) + int(f[12])
        except (OSError, IndexError, ValueError):
            return "?", -1
    try:
        out, err = p.communicate(input=data, timeout=12)
        return Proc(p.returncode, out, err, argv)
    except subprocess.TimeoutExpired:
        pass
    st1, c1 = cpu(); time.sleep(2); st2, c2 = cpu()
    if st1 == "S" and st2 == "S" and c1 == c2 and c1 >= 0:
        p.kill(); out, err = p.communicate()
        return Proc(-998, out, err + b"\n[verif: blocked, no progress]", argv)
    try:
        out, err = p.communicate(timeout=46)
        return Proc(p.returncode, out, err, argv)
    except subprocess.TimeoutExpired:
        p.kill(); out, err = p.communicate()
        return Proc(-999, out, err + b"\n[verif watchdog timeout]", argv)


def write_seeds(dirpath):
    rng = random.Random(7)
    os.makedirs(dirpath, exist_ok=True)
    for p in PRESETS:
        vals = [seed_payload(p, "/nonexistent/repo", rng.choice(["/nonexistent/repo/a.txt", "a.txt", "../x", ""]), "/nonexistent/t.jsonl", rng) for _ in range(6)]
        json.dump(vals, open(os.path.join(dirpath, p + ".json"), "w"))


def main(tier, seed, replay=None):
    rep = R.Report("C20", tier, seed, "exploration", RULE,
                   ["agent-side databases (Cursor / OpenCode SQLite) beyond what the seeds reference are not modelled",
                    "a memcheck shard (valgrind on the debug binary) runs in the thorough tier"])
    if replay:
        j = json.load(open(replay))
        if j.get("case"):
            r = R._worker((run_case, j["case"]))
            rep.add_results([r])
        return rep.finish(min_nontrivial=0)
    witnesses.replay_for(rep, "C20")
    flags = sorted(R.trigger_off_flags("C20"))
    rep.extra["trigger_flags_off"] = flags
    cases = (dict(seed=seed, index=i, flags_off=flags) for i in range(10 ** 6))
    res = R.run_pool(run_case, cases, R.budget(tier, 40, 400))
    allsigs = set()
    for r in res:
        allsigs.update(r.get("nsigs") or [])
    rep.add_results(res)
    seeds_dir = os.path.join(R.W.scratch_parent(), "c20-seeds")
    write_seeds(seeds_dir)
    inproc.run_shards(rep, "c20", seed, 3000 if tier == "quick" else 20000, [seeds_dir], R.budget(tier, 12, 120), "C20")
    rep.sigs = allsigs
    if tier == "thorough":
        memcheck_shard(rep, seed)
    return rep.finish()


def memcheck_shard(rep, seed, n=25):
    """valgrind memcheck on a handful of payload runs: an error report (not leaks at exit) is a violation."""
    rng = random.Random("%s:C20:memcheck" % seed)
    w = World(name="C20-vg", mode="wrapper")
    errs = 0
    try:
        lay = build_layout(w, "single")
        for i in range(n):
            preset = rng.choice(PRESETS)
            p = seed_payload(preset, lay["main"], lay["files"]["abs"], os.path.join(w.root, "t.jsonl"), rng)
            if rng.random() < 0.6:
                p = mutate(rng, p)
            pr = run(["valgrind", "-q", "--error-exitcode=97", "--leak-check=no", BIN, "checkpoint", preset, "--hook-input", json.dumps(p)], lay["main"], w.env(), timeout=600)
            rep.counters["memcheck_invocations"] += 1
            if pr.rc == 97 or b"Invalid read" in pr.err or b"Invalid write" in pr.err or b"uninitialised" in pr.err:
                errs += 1
                rep.direct_violation("C20/memcheck-error", dict(preset=preset, payload=json.dumps(p)[:300], stderr=pr.stderr[-800:]))
        rep.extra["memcheck"] = dict(invocations=n, error_contexts=errs)
    finally:
        w.destroy()
