"""Pinned witnesses for C03 findings."""
from .common import Script


def unreported_human_edit_above_pending_ai_lines():
    """D3': AI lines left uncommitted by a partial commit (INITIAL holds line numbers only); a person inserts lines
    above them without any checkpoint; commit => human lines are committed as AI, AI lines as human."""
    s = Script("d3p", files=2, human_edit_on_pending_unreported=True)
    try:
        f0 = [s.line("human") for _ in range(4)]
        g0 = [s.line("human") for _ in range(2)]
        s.human_write("f.txt", f0)
        s.human_write("g.txt", g0)
        s.commit_all("init")
        ai = [s.line("S1"), s.line("S1")]
        s.ai_write("S1", "f.txt", f0 + ai)
        s.ai_write("S1", "g.txt", g0 + [s.line("S1")])
        s.g("add", "g.txt")
        s.g("commit", "-q", "-m", "only g")
        hum = [s.line("human"), s.line("human")]
        s.human_write("f.txt", f0[:4] + hum + ai)   # person inserts two lines right above the pending AI lines
        s.commit_all("rest")
        c = s.head()
        s.check_notes("w")
        s.check_commit_exact(c, "w", rule="C04")
        s.check_blame_tip("w", rule="C04")
        return s.kinds()
    finally:
        s.destroy()


def path_checkout_then_human_types_same_lines():
    """D3: pending AI lines in f (partial commit), `git checkout -- f` discards them, a person types at the same line
    numbers, commit => human lines committed as AI (stale INITIAL)."""
    s = Script("d3", files=2, human_edit_on_pending_unreported=True)
    try:
        f0 = [s.line("human") for _ in range(4)]
        g0 = [s.line("human") for _ in range(2)]
        s.human_write("f.txt", f0)
        s.human_write("g.txt", g0)
        s.commit_all("init")
        s.ai_write("S1", "f.txt", f0 + [s.line("S1"), s.line("S1")])
        s.ai_write("S1", "g.txt", g0 + [s.line("S1")])
        s.g("add", "g.txt")
        s.g("commit", "-q", "-m", "only g")
        s.g("checkout", "--", "f.txt")
        s.human_write("f.txt", f0 + [s.line("human"), s.line("human")])
        s.commit_all("rest")
        c = s.head()
        s.check_notes("w")
        s.check_commit_exact(c, "w", rule="C03x")
        s.check_blame_tip("w", rule="C03x", complete=False)
        return s.kinds()
    finally:
        s.destroy()


def ai_reindents_human_lines_then_stash_roundtrip():
    """D24: an AI session changes only the indentation of two committed human lines; stash; a commit to another file; pop; commit =>
    the lines (content written by a person) are credited to the session."""
    from ..ops import Hist

    class S(Script, Hist):
        pass
    s = S("d24", files=1)
    try:
        f0 = [s.line("human") for _ in range(6)]
        s.human_write("f.txt", f0); s.commit_all("init")
        cur = list(f0); cur[2] = cur[2] + "  "; cur[3] = cur[3] + "  "
        s.ai_write("S1", "f.txt", cur)
        s.g("stash", "push", "-q")
        s.human_write("other.txt", [s.line("human")]); s.commit_all("between")
        s.g("stash", "pop", "-q")
        s.commit_all("after")
        s.check_notes("w")
        s.check_blame_tip("w", rule="C03x", complete=False)
        return s.kinds()
    finally:
        s.destroy()


def force_switch_to_current_branch_discards_pending():
    """D31 (fixed): AI edits pending; `git switch --discard-changes main` (HEAD unchanged) discards them; a person types
    at the same positions; commit."""
    from ..ops import Hist

    class S(Script, Hist):
        pass
    s = S("d31", files=1)
    try:
        f0 = [s.line("human") for _ in range(4)]
        s.human_write("f.txt", f0); s.commit_all("init")
        s.ai_write("S1", "f.txt", f0[:2] + [s.line("S1"), s.line("S1")] + f0[2:])
        s.g("switch", "-q", "--discard-changes", "main")
        s.human_write("f.txt", f0[:2] + [s.line("human"), s.line("human")] + f0[2:])
        s.commit_all("human")
        s.check_notes("w")
        s.check_blame_tip("w", rule="C03x", complete=False)
        return s.kinds()
    finally:
        s.destroy()


def squash_person_modifies_line_above_ai_block():
    """D47: main has S1's lines 6-7 right below a person's line 5; on a branch the person (no agent involved) inserts a token into
    line 5 and deletes line 4; `git merge --squash br`; commit => the person's line (now 4) was credited to S1 (fixed): the target side was blamed over
    the empty range X..X, for which git blames the work tree, so S1's line numbers were shifted by the line removed above them."""
    from .c02 import _mk
    s = _mk("d47", files=1)
    try:
        h = [s.line("human") for _ in range(7)]
        s.human_write("f.txt", h); s.commit_all("init")
        a = [s.line("S1"), s.line("S1")]
        s.ai_write("S1", "f.txt", h[:5] + a + h[5:]); s.commit_all("pre")
        s.g("checkout", "-q", "-b", "br")
        mod = s.line("human", "tok " + h[4])
        s.human_write("f.txt", h[:3] + [mod] + a + h[5:]); s.commit_all("person-only")
        s.g("checkout", "-q", "main")
        s.g("merge", "--squash", "br")
        s.g("commit", "-q", "-m", "squashed")
        s.check_notes("w")
        s.check_blame_tip("w", rule="C03")
        return s.kinds()
    finally:
        s.destroy()


def squash_other_session_replaces_lines_with_shared_prefix():
    """D50 (fixed): main holds S2's lines 4-5 (`# tokA …`, `tokB …`); on a branch S1 replaces them by three lines, one of which also
    starts with `# `; `git merge --squash br`; commit => S1's line 5 was committed as S2's (the `# ` left over from S2's old line owned the
    rewritten line on the favoured side of the merge)."""
    from .c02 import _mk
    s = _mk("d50", files=1)
    try:
        h = [s.line("human") for _ in range(5)]
        s.human_write("f.txt", h); s.commit_all("init")
        a = [s.line("S2", "# w9001_s2 v1"), s.line("S2", "w9002_s2 v2")]
        s.ai_write("S2", "f.txt", h[:3] + a + h[3:]); s.commit_all("pre")
        s.g("checkout", "-q", "-b", "br")
        b = [s.line("S1", "w9003_s1 v3"), s.line("S1", "# w9004_s1 v4"), s.line("S1", "let x = w9005_s1 v5")]
        s.ai_write("S1", "f.txt", h[:3] + b + h[3:]); s.commit_all("s1-replaces")
        s.g("checkout", "-q", "main")
        s.g("merge", "--squash", "br")
        s.g("commit", "-q", "-m", "squashed")
        s.check_notes("w")
        s.check_blame_tip("w", rule="C03")
        return s.kinds()
    finally:
        s.destroy()


def restore_discards_pending_lines_then_person_types_there():
    """D55: pending AI line at the top of f (left out by a commit of another file, so only INITIAL holds it); `git restore -- f`
    discards it; a person (reported by an IDE-style checkpoint) types three lines at the top; commit => the person's first line is
    committed as AI: `git restore` (like `git checkout f` without `--`) is not handled and the stale INITIAL survives."""
    s = Script("d55", files=2)
    try:
        f0 = [s.line("human") for _ in range(4)]
        g0 = [s.line("human") for _ in range(4)]
        s.human_write("f.txt", f0); s.human_write("g.txt", g0); s.commit_all("init")
        s.ai_write("S2", "f.txt", [s.line("S2")] + f0)
        s.human_write("g.txt", g0[:2] + [s.line("human")] + g0[2:])
        s.g("add", "--", "g.txt"); s.g("commit", "-q", "-m", "only another file")
        s.g("restore", "--", "f.txt")
        s.human_write("f.txt", [s.line("human"), s.line("human"), s.line("human")] + f0, ckpt=True)
        s.commit_all("after restore")
        s.check_notes("w"); s.check_blame_tip("w", rule="C03", complete=False)
        return s.kinds()
    finally:
        s.destroy()


def reset_path_with_dash_name_loses_prompt_record():
    """D56: S1's three lines in f are pending (INITIAL) after a commit of `-dash.txt` only, whose edit a person reported by a
    checkpoint; `git add -A; git reset -q -- -dash.txt`; the person edits `-dash.txt`; commit => the note lists S1's hash for f
    without a prompt record (the pathspec reset archived the working log with its INITIAL prompts; a name starting with a dash)."""
    from .c02 import _mk
    s = _mk("d56", files=2)
    try:
        a0 = [s.line("human") for _ in range(6)]; f0 = [s.line("human") for _ in range(4)]
        s.human_write("-dash.txt", a0); s.human_write("f.txt", f0); s.commit_all("init")
        s.ai_write("S1", "f.txt", [s.line("S1") for _ in range(3)] + f0)
        s.human_write("-dash.txt", a0[:5] + [s.line("human")] + a0[5:], ckpt=True)
        s.g("add", "--", "-dash.txt"); s.g("commit", "-q", "-m", "only another file")
        s.g("add", "-A")
        s.g("reset", "-q", "--", "-dash.txt")
        s.human_write("-dash.txt", a0 + [s.line("human")])
        s.commit_all("after reset path")
        s.check_notes("w"); s.check_blame_tip("w", rule="C03", complete=False)
        return s.kinds()
    finally:
        s.destroy()


def person_edits_untracked_file_with_pending_ai_lines_across_a_commit():
    """D57: S1 creates g.txt (5 lines) which stays untracked; a commit of nothing turns its lines into INITIAL-only pending claims;
    a person (checkpoint taken) deletes two of them and appends two own lines; another commit that does not include g.txt; then
    everything is committed => the person's lines 4-5 were committed as S1's: the pre-commit checkpoint skipped untracked files
    whenever the working log had no agent checkpoint, although INITIAL claimed lines in one."""
    s = Script("d57", files=1)
    try:
        f0 = [s.line("human") for _ in range(3)]
        s.human_write("f.txt", f0); s.commit_all("init")
        ai = [s.line("S1") for _ in range(5)]
        s.ai_write("S1", "g.txt", ai)
        s.g("commit", "-q", "--allow-empty", "-m", "nothing staged")
        s.human_write("g.txt", ai[:1] + ai[2:4] + [s.line("human"), s.line("human")], ckpt=True)
        s.g("commit", "-q", "--allow-empty", "-m", "nothing staged again")
        s.commit_all("everything")
        s.check_notes("w"); s.check_blame_tip("w", rule="C03")
        return s.kinds()
    finally:
        s.destroy()


def checkout_head_dash_dash_dot_discards_initial_only_claims():
    """D94 (fixed): an agent's two lines at the top of f.txt are pending only as INITIAL claims (a commit of another file came in
    between); `git checkout HEAD -- .` discards them; a person types three lines there; commit => the person's lines 1-2 were the
    session's: the path form of checkout removed pending attributions only for pathspecs that are literal file or directory names
    (table cells initial|checkout-head-dd-dot|* and initial-staged|checkout-head-dd-dot|*)."""
    from ..props import c03_matrix as M
    kinds, detail = set(), []
    for cell in ("initial|checkout-head-dd-dot|person", "initial-staged|checkout-head-dd-dot|person-unreported"):
        r = M.run_cell(dict(cell=cell))
        for v in r.get("viol", []):
            kinds.add("%s@%s" % (v["kind"], cell)); detail.append(dict(v))
    return sorted(kinds), detail[:4]


def git_rm_then_recreate_discards_initial_only_claims():
    """D95 (fixed): an agent's two lines at the top of f.txt are pending only as INITIAL claims; `git rm -f f.txt`; a person re-creates
    the file with the committed text and types three lines at the top (reported by an IDE-style checkpoint); commit => the person's
    lines 1-2 were the session's: `git rm` was not handled and the stale line-number claims survived the file's removal (table cells
    initial|rm-f-readd|* and initial-staged|rm-f-readd|*)."""
    from ..props import c03_matrix as M
    kinds, detail = set(), []
    for cell in ("initial|rm-f-readd|person", "initial-staged|rm-f-readd|other-session"):
        r = M.run_cell(dict(cell=cell))
        for v in r.get("viol", []):
            kinds.add("%s@%s" % (v["kind"], cell)); detail.append(dict(v))
    return sorted(kinds), detail[:4]
