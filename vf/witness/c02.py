"""Pinned witnesses for C02 findings (history rewriting)."""
import os

from .common import Script


def _final(s, rule="C02"):
    s.check_notes("w")
    if not s.in_progress():
        s.commit_all("final")
        s.check_notes("w-final")
        s.check_blame_tip("w", rule=rule)
    return s.kinds()


class HScript(Script):
    pass


def _mk(name, **kw):
    from ..ops import Hist

    class S(Script, Hist):
        pass
    return S(name, **kw)


def rebase_onto_drops_ai_commit():
    """D19: `rebase --onto main feat~1 feat` drops a commit that added an AI line; the surviving commit's note claims it."""
    s = _mk("d19", files=2)
    try:
        f0 = [s.line("human") for _ in range(8)]; g0 = [s.line("human") for _ in range(3)]
        s.human_write("f.txt", f0); s.human_write("g.txt", g0); s.commit_all("init")
        s.g("checkout", "-q", "-b", "feat")
        s.ai_write("S2", "f.txt", f0 + [s.line("S2")]); s.commit_all("feat0 ai in f")
        s.human_write("g.txt", [s.line("human"), s.line("human")] + g0); s.commit_all("feat1 human in g")
        s.g("checkout", "-q", "main")
        s.human_write("up.txt", [s.line("human")]); s.commit_all("upstream")
        s.g("checkout", "-q", "feat")
        s.g("rebase", "--onto", "main", "feat~1", "feat")
        return _final(s)
    finally:
        s.destroy()


def rebase_upstream_inserts_above_ai_line_after_human_commit():
    """D20: feature = [human edits f, AI modifies a line of f]; upstream inserts lines into f; plain rebase."""
    s = _mk("d20", files=1)
    try:
        f0 = [s.line("human") for _ in range(10)]
        s.human_write("f.txt", f0); s.commit_all("init")
        s.g("checkout", "-q", "-b", "feat")
        f1 = f0[:5] + [s.line("human")] + f0[7:]
        s.human_write("f.txt", f1); s.commit_all("feat0 human")
        f2 = list(f1); f2[4] = f2[4] + " mod_by_s1"; s.ledger.record(f2[4], "S1")
        s.ai_write("S1", "f.txt", f2); s.commit_all("feat1 ai mod")
        s.g("checkout", "-q", "main")
        u1 = f0[:1] + [s.line("S1"), s.line("S1")] + f0[1:]
        s.ai_write("S1", "f.txt", u1); s.commit_all("upstream1")
        u2 = u1[:5] + [s.line("human") for _ in range(5)] + u1[5:]
        s.human_write("f.txt", u2); s.commit_all("upstream2")
        s.g("checkout", "-q", "feat")
        p = s.g("rebase", "main")
        if s.in_progress():
            s.g("rebase", "--abort")
            return ["HARNESS/conflict"], []
        return _final(s)
    finally:
        s.destroy()


def rebase_edit_stop_amend_with_ai_edit():
    """D21: `rebase -i` with `edit` on the first commit; an AI edit is amended into it at the stop; continue."""
    s = _mk("d21", files=2)
    try:
        f0 = [s.line("human") for _ in range(8)]; g0 = [s.line("human") for _ in range(6)]
        s.human_write("f.txt", f0); s.human_write("g.txt", g0); s.commit_all("init")
        s.g("checkout", "-q", "-b", "feat")
        f1 = f0 + [s.line("S3"), s.line("S3")]
        s.ai_write("S3", "f.txt", f1); s.commit_all("feat0")
        g1 = g0[:2] + [s.line("S1")] + g0[2:]
        s.ai_write("S1", "g.txt", g1); s.commit_all("feat1")
        s.g("checkout", "-q", "main")
        s.human_write("up.txt", [s.line("human")]); s.commit_all("upstream")
        s.g("checkout", "-q", "feat")
        seq = s.make_seq_editor("edit")
        s.g("rebase", "-i", "main", env={"GIT_SEQUENCE_EDITOR": seq})
        f2 = list(f1); f2[3] = f2[3] + " mod_by_s2"; s.ledger.record(f2[3], "S2")
        s.ai_write("S2", "f.txt", f2)
        s.g("add", "-A"); s.g("commit", "-q", "--amend", "--no-edit")
        s.g("-c", "core.editor=true", "rebase", "--continue")
        return _final(s)
    finally:
        s.destroy()


def amend_after_human_inserts_above_ai_lines():
    """D12: commit with AI lines; a person inserts a line at the top of the file; `commit --amend` keeps the old line numbers."""
    s = _mk("d12", files=1)
    try:
        f0 = [s.line("human") for _ in range(4)]
        s.human_write("f.txt", f0); s.commit_all("init")
        ai = [s.line("S1"), s.line("S1")]
        s.ai_write("S1", "f.txt", f0[:2] + ai + f0[2:]); s.commit_all("ai")
        s.human_write("f.txt", [s.line("human")] + f0[:2] + ai + f0[2:])
        s.g("add", "-A"); s.g("commit", "-q", "--amend", "-m", "amended")
        return _final(s)
    finally:
        s.destroy()


def cherry_pick_no_commit_then_commit():
    """D22: `git cherry-pick -n <commit with AI lines>` followed by `git commit` loses the attribution."""
    s = _mk("d22", files=1)
    try:
        f0 = [s.line("human") for _ in range(4)]
        s.human_write("f.txt", f0); s.commit_all("init")
        s.g("checkout", "-q", "-b", "src")
        s.ai_write("S1", "f.txt", f0 + [s.line("S1"), s.line("S1")]); s.commit_all("ai")
        s.g("checkout", "-q", "main")
        s.g("cherry-pick", "-n", "src")
        s.g("commit", "-q", "-m", "picked")
        return _final(s)
    finally:
        s.destroy()


def squash_merge_with_conflict():
    """D23: `merge --squash` stops on a conflict; the person keeps the branch side; commit => branch's AI lines are human."""
    s = _mk("d23", files=1)
    try:
        f0 = [s.line("human") for _ in range(4)]
        s.human_write("f.txt", f0); s.commit_all("init")
        s.g("checkout", "-q", "-b", "br")
        ai = [s.line("S1"), s.line("S1")]
        s.ai_write("S1", "f.txt", [ai[0]] + f0[1:] + [ai[1]]); s.commit_all("ai")
        s.g("checkout", "-q", "main")
        s.human_write("f.txt", [s.line("human")] + f0[1:]); s.commit_all("upstream")
        s.g("merge", "--squash", "br")
        s.resolve_conflicts(how="theirs")
        s.g("commit", "-q", "-m", "squashed")
        return _final(s)
    finally:
        s.destroy()


def stash_pop_after_upstream_inserted_above():
    """D2: AI lines stashed; a commit inserts lines above them in the same file; `stash pop`; commit."""
    s = _mk("d2", files=1)
    try:
        f0 = [s.line("human") for _ in range(6)]
        s.human_write("f.txt", f0); s.commit_all("init")
        ai = [s.line("S1"), s.line("S1")]
        s.ai_write("S1", "f.txt", f0 + ai)
        s.g("stash", "push", "-q")
        s.human_write("f.txt", [s.line("human"), s.line("human")] + f0); s.commit_all("between")
        s.g("stash", "pop", "-q")
        return _final(s)
    finally:
        s.destroy()


def rebase_first_commit_must_not_list_later_files():
    """D16a (fixed): feature = [person edits g; AI appends a line to f]; upstream inserts 2 lines at the top of f; rebase."""
    s = _mk("d16a", files=2)
    try:
        f0 = [s.line("human") for _ in range(6)]; g0 = [s.line("human") for _ in range(3)]
        s.human_write("f.txt", f0); s.human_write("g.txt", g0); s.commit_all("init")
        s.g("checkout", "-q", "-b", "feat")
        s.human_write("g.txt", g0 + [s.line("human")]); s.commit_all("feat0")
        s.ai_write("S1", "f.txt", f0 + [s.line("S1")]); s.commit_all("feat1")
        s.g("checkout", "-q", "main")
        s.human_write("f.txt", [s.line("human"), s.line("human")] + f0); s.commit_all("upstream")
        s.g("checkout", "-q", "feat")
        s.g("rebase", "main")
        s.g("checkout", "-q", "main"); s.g("merge", "-q", "--ff-only", "feat")
        return _final(s)
    finally:
        s.destroy()


def reset_of_unrelated_commit_keeps_pending():
    """D11 (fixed): commit touches only g; AI work pending in f; `reset --mixed HEAD~1`; commit everything."""
    s = _mk("d11", files=2)
    try:
        f0 = [s.line("human") for _ in range(4)]; g0 = [s.line("human") for _ in range(3)]
        s.human_write("f.txt", f0); s.human_write("g.txt", g0); s.commit_all("init")
        s.human_write("g.txt", g0 + [s.line("human")]); s.commit_all("only g")
        s.ai_write("S1", "f.txt", f0 + [s.line("S1"), s.line("S1")])
        s.g("reset", "-q", "--mixed", "HEAD~1")
        return _final(s)
    finally:
        s.destroy()


def bare_stash_after_unreported_human_edit():
    """D25 (fixed): AI appends 3 lines; a person inserts a line above them without checkpoint; bare `git stash`;
    a commit to another file; `git stash pop`; commit."""
    s = _mk("d25", files=2)
    try:
        f0 = [s.line("human") for _ in range(6)]; g0 = [s.line("human") for _ in range(3)]
        s.human_write("f.txt", f0); s.human_write("g.txt", g0); s.commit_all("init")
        ai = [s.line("S1") for _ in range(3)]
        s.ai_write("S1", "f.txt", f0 + ai)
        s.human_write("f.txt", f0[:5] + [s.line("human")] + f0[5:] + ai)
        s.g("stash")
        s.human_write("g.txt", g0[:-1]); s.commit_all("between")
        s.g("stash", "pop", "-q")
        return _final(s)
    finally:
        s.destroy()


def person_replaces_ai_token_then_reset_soft():
    """D29: an AI session appends a token to a line written by a person, commit; the person replaces that token with an own
    one (no checkpoint); `git reset --soft HEAD~1`; commit => the line, now entirely written by the person, is reported AI."""
    s = _mk("d29", files=1)
    try:
        f0 = [s.line("human") for _ in range(5)]
        s.human_write("f.txt", f0); s.commit_all("init")
        ai = f0[3] + " tok_by_s2"; s.ledger.record(ai, "S2")
        s.ai_write("S2", "f.txt", f0[:3] + [ai] + f0[4:]); s.commit_all("ai mod")
        hum = f0[3] + " tok_by_person"; s.ledger.record(hum, "human")
        s.human_write("f.txt", f0[:3] + [hum] + f0[4:])
        s.g("reset", "-q", "--soft", "HEAD~1")
        return _final(s)
    finally:
        s.destroy()


def person_replaces_ai_token_commits_then_reset_soft():
    """D30: an AI session appends a token to a person's line, commit; the person replaces that token with an own one and
    commits (the note rightly does not list the line); `git reset --soft HEAD~1`; commit => the line is reported AI."""
    s = _mk("d30", files=1)
    try:
        f0 = [s.line("human") for _ in range(5)]
        s.human_write("f.txt", f0); s.commit_all("init")
        ai = f0[3] + " tok_by_s2"; s.ledger.record(ai, "S2")
        s.ai_write("S2", "f.txt", f0[:3] + [ai] + f0[4:]); s.commit_all("ai mod")
        hum = f0[3] + " tok_by_person"; s.ledger.record(hum, "human")
        s.human_write("f.txt", f0[:3] + [hum] + f0[4:]); s.commit_all("human mod")
        s.check_notes("before-reset")
        s.g("reset", "-q", "--soft", "HEAD~1")
        return _final(s)
    finally:
        s.destroy()


def ci_squash_merge_of_two_commits_on_moved_base():
    """D54: a pull request of two commits (the first adds two AI lines, the second deletes them and their neighbours) is squash-merged
    on the server by plain git onto a base branch that has earlier commits; `git-ai ci local merge` took it for a rebase merge
    (it walked two commits back from the squash commit, into the base branch) => the squash commit's note listed lines past the
    end of the file and an older base commit's note was overwritten."""
    s = _mk("d54", files=1)
    try:
        f0 = [s.line("human") for _ in range(6)]
        s.human_write("f.txt", f0); s.commit_all("init")
        f1 = f0[:3] + [s.line("S2")] + f0[3:]
        s.ai_write("S2", "f.txt", f1); s.commit_all("hist")
        s.commit_all("an empty commit on the base branch")
        s.ensure_origin()
        s.g("checkout", "-q", "-b", "pr")
        f2 = f1 + [s.line("S1"), s.line("S1")]
        s.ai_write("S1", "f.txt", f2); s.commit_all("pr0 adds two AI lines at the end")
        f3 = f2[:5]
        s.ai_write("S2", "f.txt", f3); s.commit_all("pr1 deletes the tail")
        head_sha = s.head()
        s.g("checkout", "-q", "main")
        base_sha = s.head()
        s.w.git("push", "-q", "origin", "+refs/heads/*:refs/heads/*", "+refs/notes/ai:refs/notes/ai", plain=True, tick=False)
        s.w.git("merge", "--squash", "pr", plain=True)
        s.w.git("commit", "-q", "-m", "squashed on the server", plain=True)
        merge_sha = s.head()
        s.w.git("push", "-q", "origin", "main", plain=True, tick=False)
        p = s.w.ga("ci", "local", "merge", "--merge-commit-sha", merge_sha, "--base-ref", "main", "--head-ref", "pr",
                   "--head-sha", head_sha, "--base-sha", base_sha)
        if p.rc != 0:
            s.violation("C02/ci-rewrite-failed", rc=p.rc, err=p.stderr[-300:])
        return _final(s)
    finally:
        s.destroy()


def cherry_pick_range_first_commit_must_not_list_later_files():
    """D64: `git cherry-pick C1 C2` where C1 adds S1's line at the bottom of f.txt and C2 adds two lines at the top of f.txt plus
    S1's three lines in g.txt, onto a branch that already has the two top lines (so the shortcut declines: f.txt differs for the
    first pair). The full replay started from the state of C2 and wrote, for the FIRST new commit, a note that also listed g.txt
    lines 2-4 - lines that commit does not contain (a person's lines / past the end of the file)."""
    s = _mk("d64", files=2)
    try:
        f0 = [s.line("human") for _ in range(6)]; g0 = [s.line("human") for _ in range(3)]
        s.human_write("f.txt", f0); s.human_write("g.txt", g0); s.commit_all("init")
        s.g("checkout", "-q", "-b", "src")
        f1 = f0 + [s.line("S1")]
        s.ai_write("S1", "f.txt", f1); s.commit_all("C1: agent line at the bottom of f")
        top = [s.line("human"), s.line("human")]
        s.human_write("f.txt", top + f1)
        s.ai_write("S1", "g.txt", g0[:1] + [s.line("S1"), s.line("S1"), s.line("S1")] + g0[1:])
        s.commit_all("C2: two lines at the top of f, agent lines in g")
        s.g("checkout", "-q", "main")
        s.human_write("f.txt", top + f0); s.commit_all("upstream already has the two top lines")
        s.g("cherry-pick", "src~2..src")
        return _final(s)
    finally:
        s.destroy()


def ci_rebase_merge_of_ai_commit_followed_by_human_commit():
    """D66: a pull request of two commits (S1 adds three lines to f.txt; a person deletes lines of g.txt) is rebase-merged on the
    server by plain git onto a base branch that moved on in another file; `git-ai ci local merge` paired the original commits (newest
    first) with the rebased ones (oldest first): the AI commit's new note was the human commit's empty one => S1's lines 2-4 human."""
    s = _mk("d66", files=2)
    try:
        f0 = [s.line("human") for _ in range(4)]; g0 = [s.line("human") for _ in range(4)]; h0 = [s.line("human") for _ in range(4)]
        s.human_write("f.txt", f0); s.human_write("g.txt", g0); s.human_write("h.txt", h0); s.commit_all("init")
        s.ensure_origin()
        s.g("checkout", "-q", "-b", "pr")
        s.ai_write("S1", "f.txt", f0[:1] + [s.line("S1"), s.line("S1"), s.line("S1")] + f0[1:]); s.commit_all("pr0: agent lines")
        s.human_write("g.txt", g0[:1] + g0[3:]); s.commit_all("pr1: a person deletes lines in another file")
        head = s.head()
        s.g("checkout", "-q", "main")
        s.human_write("h.txt", [s.line("human")] + h0); s.commit_all("upstream")
        base = s.head()
        s.w.git("push", "-q", "origin", "+refs/heads/*:refs/heads/*", "+refs/notes/ai:refs/notes/ai", plain=True, tick=False)
        s.w.git("checkout", "-q", "-b", "srv", "pr", plain=True); s.w.git("rebase", "main", plain=True)
        s.w.git("checkout", "-q", "main", plain=True, tick=False); s.w.git("merge", "-q", "--ff-only", "srv", plain=True, tick=False)
        m = s.head()
        s.w.git("push", "-q", "origin", "main", plain=True, tick=False)
        p = s.w.ga("ci", "local", "merge", "--merge-commit-sha", m, "--base-ref", "main", "--head-ref", "pr", "--head-sha", head, "--base-sha", base)
        if p.rc != 0:
            s.violation("C02/ci-rewrite-failed", rc=p.rc, err=p.stderr[-300:])
        return _final(s)
    finally:
        s.destroy()


def stash_pop_after_partial_commit_keeps_pending():
    """D68: S1's lines in f.txt are stashed; S2 adds a line to g.txt and creates h.txt, only g.txt is committed (h.txt's lines stay
    pending in INITIAL); `git stash pop` replaced INITIAL with the stash's attributions => h.txt's lines were committed as human."""
    s = _mk("d68", files=2)
    try:
        f0 = [s.line("human") for _ in range(5)]; g0 = [s.line("human") for _ in range(4)]
        s.human_write("f.txt", f0); s.human_write("g.txt", g0); s.commit_all("init")
        s.ai_write("S1", "f.txt", f0[:2] + [s.line("S1"), s.line("S1")] + f0[2:])
        s.g("stash", "push", "-q")
        s.ai_write("S2", "g.txt", g0[:2] + [s.line("S2")] + g0[2:])
        s.ai_write("S2", "h.txt", [s.line("S2"), s.line("S2")])
        s.g("add", "--", "g.txt"); s.g("commit", "-q", "-m", "only g")
        s.g("stash", "pop", "-q")
        return _final(s)
    finally:
        s.destroy()


def checkout_m_to_another_commit_carrying_a_new_agent_file():
    """D69: an agent creates new.txt (two lines, untracked); `git branch other HEAD~1; git checkout -m other` carries it to another
    commit; commit => the agent's lines are human (the working log is not migrated for files that exist only in the work tree)."""
    s = _mk("d69", files=1)
    try:
        f0 = [s.line("human") for _ in range(4)]
        s.human_write("f.txt", f0); s.commit_all("init")
        s.human_write("f.txt", f0 + [s.line("human")]); s.commit_all("second")
        s.ai_write("S2", "new.txt", [s.line("S2"), s.line("S2")])
        s.g("branch", "other", "HEAD~1")
        s.g("checkout", "-q", "-m", "other")
        return _final(s)
    finally:
        s.destroy()


def person_overwrites_pending_ai_line_then_checkout_m():
    """D29 (second pinned history; the first, reset --soft after a token replacement, was repaired together with D50): an AI session
    inserts two lines at the top of f.txt (uncommitted); the person overwrites the first of them with an own line, no checkpoint;
    `git checkout -m <other commit>` carries the work over; commit => line 1, written by the person, is reported AI (the switch
    snapshots pending attribution by line number without first recording the person's edit)."""
    s = _mk("d29b", files=1)
    try:
        f0 = [s.line("human") for _ in range(4)]
        s.human_write("f.txt", f0); s.commit_all("init")
        s.human_write("g.txt", [s.line("human")]); s.commit_all("second")
        a1, a2 = s.line("S1"), s.line("S1")
        s.ai_write("S1", "f.txt", [a1, a2] + f0)
        s.human_write("f.txt", [s.line("human"), a2] + f0)        # unreported overwrite of the agent's first line
        s.g("branch", "sw1", "HEAD~1")
        s.g("checkout", "-q", "-m", "sw1")
        return _final(s)
    finally:
        s.destroy()


def squash_merge_keeps_unrelated_pending_work():
    """D84 (fixed): an agent's line in g.txt is pending (uncommitted) on main; `git merge --squash feature` (the branch only changes f.txt);
    commit; later everything is committed => g.txt's line was committed as human: the squash handler deleted the whole working log of
    HEAD ('--squash always fails if the repo is not clean' - it only needs the merged files to be clean)."""
    s = _mk("d84", files=2)
    try:
        f0 = [s.line("human") for _ in range(3)]; g0 = [s.line("human") for _ in range(3)]
        s.human_write("f.txt", f0); s.human_write("g.txt", g0); s.commit_all("init")
        s.g("checkout", "-q", "-b", "feature")
        s.ai_write("S1", "f.txt", f0 + [s.line("S1")]); s.commit_all("feature ai")
        s.g("checkout", "-q", "main")
        s.ai_write("S2", "g.txt", g0 + [s.line("S2")])
        s.g("merge", "--squash", "feature")
        s.g("commit", "-q", "-m", "squashed")
        return _final(s)
    finally:
        s.destroy()


def stash_apply_by_numeric_index():
    """D89 (fixed): an agent's line in f.txt is stashed, then a person's edit of g.txt is stashed on top; a commit to another file;
    `git stash apply 1` (git's short spelling of stash@{1}) brings the agent's line back; commit => the line was a person's: the
    pre-hook resolved the argument with `git rev-parse 1`, which fails, so no attribution was restored."""
    s = _mk("d89", files=2)
    try:
        f0 = [s.line("human") for _ in range(3)]; g0 = [s.line("human") for _ in range(3)]
        s.human_write("f.txt", f0); s.human_write("g.txt", g0); s.commit_all("init")
        s.ai_write("S1", "f.txt", f0 + [s.line("S1")])
        s.g("stash", "push", "-q")
        s.human_write("g.txt", g0 + [s.line("human")], ckpt=True)
        s.g("stash", "push", "-q")
        s.human_write("h.txt", [s.line("human")]); s.commit_all("unrelated")
        s.g("stash", "apply", "-q", "1")
        return _final(s)
    finally:
        s.destroy()


def amend_that_reproduces_the_same_commit_id():
    """D90 (fixed): an agent's lines in f.txt stay pending after `git commit -- g.txt`; `git commit --amend --no-edit` within the same
    second (nothing changed, same dates => the amended commit has the SAME id) => the pending lines were committed as a person's later:
    the amend handler wrote the carried-over INITIAL under the new id and then `cleaned up the old working log` - the same directory."""
    s = _mk("d90", files=2)
    try:
        f0 = [s.line("human") for _ in range(3)]; g0 = [s.line("human") for _ in range(3)]
        s.human_write("f.txt", f0); s.human_write("g.txt", g0); s.commit_all("init")
        s.ai_write("S1", "f.txt", f0 + [s.line("S1"), s.line("S1")])
        s.ai_write("S2", "g.txt", g0 + [s.line("S2")])
        s.g("commit", "-q", "-m", "only g", "--", "g.txt")
        before = s.head()
        p = s.w.git("commit", "--amend", "--no-edit", "-q", tick=False)
        s.log.append(["git", "commit", "--amend", "--no-edit", "(same second)", "rc=%d" % p.rc])
        if s.head() != before:
            return ["harness:amend-changed-the-id"], []
        return _final(s)
    finally:
        s.destroy()


def rebase_that_drops_every_commit_keeps_pending_work():
    """D91 (fixed): the topic branch's only commit is already upstream (picked there, followed by another upstream commit); an agent has
    written new.txt (untracked, reported) on the topic; `git rebase main` drops the commit as already applied and HEAD moves to main;
    commit => the agent's lines were a person's: with no rebased commit the rebase handler returned early and the working log stayed
    keyed by the old HEAD (likewise when the branch is merely behind and the rebase fast-forwards)."""
    kinds_all, detail = [], []
    for variant in ("already-upstream", "fast-forward"):
        s = _mk("d91" + variant[:2], files=1)
        try:
            f0 = [s.line("human") for _ in range(3)]
            s.human_write("f.txt", f0); s.commit_all("init")
            s.g("checkout", "-q", "-b", "topic")
            if variant == "already-upstream":
                s.human_write("f.txt", f0 + [s.line("human")]); s.commit_all("topic commit")
                s.g("checkout", "-q", "main")
                s.g("cherry-pick", "topic")
            else:
                s.g("checkout", "-q", "main")
            s.human_write("up.txt", [s.line("human")]); s.commit_all("upstream moves on")
            s.g("checkout", "-q", "topic")
            s.ai_write("S1", "new.txt", [s.line("S1"), s.line("S1")])
            s.g("rebase", "main")
            ks, d = _final(s)
            kinds_all += [k + "@" + variant for k in ks]; detail += d
        finally:
            s.destroy()
    return sorted(set(kinds_all)), detail[:6]


def pull_rebase_stopped_on_a_conflict_then_continued():
    """D92: local commits X (a person's change to f.txt that conflicts with upstream) and Y (an agent's line in g.txt); `git pull --rebase`
    stops on the conflict in X; resolve, `git add`, `git rebase --continue` => the rebased Y has no note and the agent's line is a
    person's (the pull does not log a rebase start, so `--continue` is taken for a new rebase whose original head is the detached
    mid-rebase HEAD)."""
    import os
    s = _mk("d92", files=2)
    try:
        f0 = [s.line("human") for _ in range(3)]; g0 = [s.line("human") for _ in range(3)]
        s.human_write("f.txt", f0); s.human_write("g.txt", g0); s.commit_all("init")
        origin = s.ensure_origin()
        s.w.git("push", "-q", "origin", "main", plain=True, tick=False)
        s.w.git("branch", "--set-upstream-to=origin/main", plain=True, tick=False)
        other = os.path.join(s.w.root, "other")
        s.w.git("clone", "-q", origin, other, plain=True, tick=False, cwd=s.w.root)
        up = s.line("human")
        s.w.write_bytes("f.txt", ("\n".join([f0[0], up] + f0[2:]) + "\n").encode(), other)
        s.w.git("commit", "-qam", "upstream changes line 2", plain=True, tick=True, cwd=other)
        s.w.git("push", "-q", "origin", "main", plain=True, tick=False, cwd=other)
        mine = s.line("human")
        s.human_write("f.txt", [f0[0], mine] + f0[2:]); s.commit_all("X: a person changes line 2 too")
        s.ai_write("S1", "g.txt", g0 + [s.line("S1")]); s.commit_all("Y: agent line in g")
        s.check_notes("before pull")
        p = s.g("pull", "--rebase", "-q")
        if not s.in_progress():
            return ["harness:no-conflict"], []
        s.write("f.txt", [f0[0], mine] + f0[2:])
        s.g("add", "f.txt")
        s.g("rebase", "--continue")
        return _final(s)
    finally:
        s.destroy()
