"""Pinned witness for the C15 finding."""
from .common import Script
from ..ops import Hist
from ..props import c15


def _run(disable):
    class S(Script, Hist):
        pass
    s = S("d16", files=2)
    if disable:
        s.w.env_base["GIT_AI_VERIF_DISABLE_FAST_PATH"] = "1"
    f0 = [s.line("human") for _ in range(4)]; g0 = [s.line("human") for _ in range(2)]
    s.human_write("f.txt", f0); s.human_write("g.txt", g0); s.commit_all("init")
    s.g("checkout", "-q", "-b", "feat")
    s.ai_write("S1", "f.txt", f0 + [s.line("S1"), s.line("S1")]); s.commit_all("c1")
    cur = s.read("f.txt")
    s.ai_write("S2", "f.txt", cur[:1] + [s.line("S2")] + cur[1:]); s.commit_all("c2")
    s.g("checkout", "-q", "main")
    s.human_write("g.txt", g0 + [s.line("human")]); s.commit_all("up")
    s.g("checkout", "-q", "feat")
    s.g("rebase", "main")
    commits = s.w.ogit("rev-list", "--reverse", "main..feat").split()
    views = [c15.note_views(s, c) for c in commits]
    return s, views


def two_commit_rebase_same_file_strict_vs_replay():
    """D16: commit 1 adds AI lines 5-6 to f.txt (S1), commit 2 adds AI line 2 to f.txt (S2), upstream touches only g.txt; plain rebase:
    the shortcut copies commit-scoped notes, the full replay writes cumulative notes (other commits' lines and prompt records)."""
    a, va = _run(False)
    try:
        b, vb = _run(True)
        try:
            kinds = []
            for i, ((sa, pa), (sb, pb)) in enumerate(zip(va, vb)):
                if pa != pb:
                    kinds.append("C15/projected-notes-differ@commit%d" % (i + 1))
                if sa != sb:
                    kinds.append("C15/strict-notes-differ@commit%d" % (i + 1))
            return sorted(kinds), [dict(shortcut=va, replay=vb)]
        finally:
            b.destroy()
    finally:
        a.destroy()
