"""Pinned witness for the repaired C08 defect."""
import random


def amend_in_default_storage_mode():
    """D6 (fixed): prompt_storage=default; AI commit; AI edit; `commit --amend` must not put the transcript into refs/notes/ai."""
    from ..props import c08
    r = None
    prof = dict(sessions=1, files=1, hostile_content=False, hostile_names=False, crlf=False, no_final_nl=False, decoys=False, human_ckpt_rate=0.0, reindent=False)
    sc = c08.Sc8("WD6", 0, 0, prof, world_kwargs=dict(prompt_storage="default"))
    sc.mode = "default"
    try:
        sc.rng = random.Random(6)
        sc.setup_agents()
        sc.kinds["S1"] = "agent-v1"
        sc.files = ["f.txt"]
        sc.write("f.txt", [sc.fresh("human", hostile=False) for _ in range(4)])
        sc.commit_all("init")
        sc.do_edit(author="S1", f="f.txt", kinds=["ins"])
        sc.commit_all("ai")
        sc.do_edit(author="S1", f="f.txt", kinds=["ins"])
        sc.g("add", "-A"); sc.g("commit", "-q", "--amend", "-m", "amended")
        sc.after_step("amend")
        return sorted({v["kind"] for v in sc.viol}), [dict(v) for v in sc.viol[:3]]
    finally:
        sc.destroy()


def long_credential_in_notes_mode():
    """D96 (fixed): prompt_storage=notes; the conversation contains a 93-character GitHub fine-grained token (`github_pat_...`) and a
    128-character base64 secret; AI commit => both were written to the note unmasked: tokens longer than 90 characters were never
    examined at all (the detector's tables are sized for 90)."""
    from ..props import c08
    from ..secrets_gen import planted_token
    prof = dict(sessions=1, files=1, hostile_content=False, hostile_names=False, crlf=False, no_final_nl=False, decoys=False, human_ckpt_rate=0.0, reindent=False)
    sc = c08.Sc8("WD96", 0, 0, prof, world_kwargs=dict(prompt_storage="notes"))
    sc.mode = "notes"
    try:
        sc.rng = random.Random(96)
        sc.setup_agents()
        sc.kinds["S1"] = "agent-v1"
        sc.tokens["S1"] = [planted_token(sc.rng, "github_pat") + ("user",), planted_token(sc.rng, "b64long") + ("assistant",),
                           planted_token(sc.rng, "github_pat") + ("thinking",), planted_token(sc.rng, "b64long") + ("plan",)]
        sc.files = ["f.txt"]
        sc.write("f.txt", [sc.fresh("human", hostile=False) for _ in range(4)])
        sc.commit_all("init")
        sc.do_edit(author="S1", f="f.txt", kinds=["ins"])
        sc.commit_all("ai")
        sc.after_step("commit")
        vs = [v for v in sc.viol if v["kind"].startswith("C08/")]
        return sorted({v["kind"] + "@" + str(v.get("shape")) for v in vs}), [dict(v) for v in vs[:3]]
    finally:
        sc.destroy()
