"""Pinned witness for the repaired C08 defect."""
import random


def amend_in_default_storage_mode():
    """D6 (fixed): prompt_storage=default; AI commit; AI edit; `commit --amend` must not put the transcript into refs/notes/ai."""
    from ..props import c08
    r = None
    prof = dict(sessions=1, files=1, hostile_content=False, hostile_names=False, crlf=False, no_final_nl=False, decoys=False, human_ckpt_rate=0.0, reindent=False)
    sc = c08.Sc8("WD6", 0, 0, prof, world_kwargs=dict(prompt_storage="default"))
    sc.mode = "default"
    try:
        sc.rng = random.Random(6)
        sc.setup_agents()
        sc.kinds["S1"] = "agent-v1"
        sc.files = ["f.txt"]
        sc.write("f.txt", [sc.fresh("human", hostile=False) for _ in range(4)])
        sc.commit_all("init")
        sc.do_edit(author="S1", f="f.txt", kinds=["ins"])
        sc.commit_all("ai")
        sc.do_edit(author="S1", f="f.txt", kinds=["ins"])
        sc.g("add", "-A"); sc.g("commit", "-q", "--amend", "-m", "amended")
        sc.after_step("amend")
        return sorted({v["kind"] for v in sc.viol}), [dict(v) for v in sc.viol[:3]]
    finally:
        sc.destroy()
