"""Pinned witnesses for C05 findings (note format)."""
from .common import Script


def _one_file(name):
    s = Script("c05")
    try:
        base = [s.line("human") for _ in range(3)]
        s.human_write(name, base)
        s.commit_all("init")
        s.ai_write("S1", name, base + [s.line("S1")])
        s.commit_all("ai")
        s.check_notes("w")
        ks = sorted({v["kind"] for v in s.viol})
        return ks, [dict(v) for v in s.viol[:4]]
    finally:
        s.destroy()


def file_named_like_the_divider():
    """D4: a tracked file named `---` gets an AI line; the note's path line is read as the divider."""
    return _one_file("---")


def file_name_with_newline():
    """D27: a tracked file whose name contains a newline gets an AI line; the quoted path line spans two lines."""
    return _one_file("nl\nname.txt")
