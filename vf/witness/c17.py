"""Pinned witnesses for C17 findings (in-process)."""
from .. import runner as R
from ..props import inproc


def _probe_with(flags, want_kind, tries=6):
    # the failing path class is reachable only when its flag is NOT passed
    for s in range(tries):
        r = inproc.shard("c17", 7000 + s, 4000, flags)
        ks = sorted({v["kind"] for v in r.get("violations", []) if want_kind in json_paths(v)})
        if ks:
            return ks, r.get("violations", [])[:2]
    return [], []


def json_paths(v):
    import json
    return json.dumps(v, ensure_ascii=False)


def file_name_containing_base_commit_sha_field():
    """D37: a log with a file whose name contains `"base_commit_sha":"x"`: the textual base-commit remap used by the rewrite
    shortcuts edits the path line instead of the metadata field."""
    flags = ["name:---", "name:nl\nname.txt"]
    for s in range(8):
        r = inproc.shard("c17", 7100 + s, 4000, flags)
        vs = [v for v in r.get("violations", []) if v.get("kind") == "C17/remap-changed-log" and "base_commit_sha" in json_paths(v.get("paths"))]
        if vs:
            return ["C17/remap-changed-log"], vs[:1]
    return [], []


def single_quote_path_line():
    """D40 (fixed): arbitrary text in which a path line is a single double-quote character used to panic the parser
    (slice 1..0); the seeded text-soup shard that found it must stay silent."""
    r = inproc.shard("c17", 1000, 40000, ["name:---", "name:nl\nname.txt", "path:json-field"])
    vs = [v for v in r.get("violations", []) if v.get("kind") == "C17/panic-parse"]
    if r.get("crash"):
        return ["C17/probe-aborted"], [r["crash"]]
    return (["C17/panic-parse"], vs[:1]) if vs else ([], [])


def file_name_wrapped_in_double_quotes():
    """D52 (fixed): a tracked file named `"x"` (the name itself begins and ends with a double quote, no whitespace) gets an AI line:
    the path was written unquoted, and every reader strips the quotes, so the note listed a file `x` that the commit does not contain."""
    from .c02 import _mk
    s = _mk("d52", files=1)
    try:
        s.human_write('"x"', [s.line("human") for _ in range(3)]); s.commit_all("init")
        cur = s.read('"x"')
        s.ai_write("S1", '"x"', cur + [s.line("S1")]); s.commit_all("ai")
        s.check_notes("w")
        s.check_blame_tip("w", rule="C17")
        return s.kinds()
    finally:
        s.destroy()
