"""Pinned witnesses for C01 findings."""
from .common import Script


def reindent_committed_ai_line():
    """D17: AI line committed; a person re-indents it (whitespace only); next commit reports it human."""
    s = Script("d17")
    try:
        base = [s.line("human") for _ in range(3)]
        s.human_write("f.txt", base)
        s.commit_all("init")
        ai = [s.line("S1"), s.line("S1")]
        s.ai_write("S1", "f.txt", base + ai)
        s.commit_all("ai")
        s.human_write("f.txt", base + ["    " + ai[0], ai[1]])
        s.commit_all("reindent")
        c = s.head()
        s.check_notes("w")
        s.check_commit_exact(c, "w", rule="C01")
        s.check_blame_tip("w", rule="C01")
        return s.kinds()
    finally:
        s.destroy()


def reindent_and_delete_next_line():
    """D13: a person re-indents an uncommitted AI line and deletes the following lines in the same interval."""
    s = Script("d13")
    try:
        base = [s.line("human") for _ in range(3)]
        s.human_write("f.txt", base)
        s.commit_all("init")
        ai = [s.line("S1") for _ in range(5)]
        s.ai_write("S1", "f.txt", ai + base)
        cur = ai + base
        cur[3] = "  " + cur[3]
        del cur[4:6]
        s.human_write("f.txt", cur)
        s.commit_all("c")
        c = s.head()
        s.check_notes("w")
        s.check_commit_exact(c, "w", rule="C01")
        s.check_blame_tip("w", rule="C01")
        return s.kinds()
    finally:
        s.destroy()


def plusplus_line_then_more_ai_lines():
    """D1 (fixed): an AI line starting with '++ ' followed by more AI hunks in the same file."""
    s = Script("d1")
    try:
        base = [s.line("human") for _ in range(6)]
        s.human_write("f.txt", base)
        s.commit_all("init")
        a = [s.line("S1", "++ w_plusplus_s1"), s.line("S1"), s.line("S1"), s.line("S1")]
        cur = [base[0], a[0], a[1], base[1], base[2], a[2], base[3], a[3], base[4], base[5]]
        s.ai_write("S1", "f.txt", cur)
        s.commit_all("c")
        c = s.head()
        s.check_notes("w")
        s.check_commit_exact(c, "w", rule="C01")
        s.check_blame_tip("w", rule="C01")
        return s.kinds()
    finally:
        s.destroy()


def human_replaces_all_ai_lines():
    """D10 (fixed): AI adds lines, the person replaces every one of them with own text, commit."""
    s = Script("d10")
    try:
        base = [s.line("human") for _ in range(3)]
        s.human_write("f.txt", base)
        s.commit_all("init")
        ai = [s.line("S1"), s.line("S1")]
        s.ai_write("S1", "f.txt", base + ai)
        s.human_write("f.txt", base + [s.line("human"), s.line("human")])
        s.commit_all("c")
        c = s.head()
        s.check_notes("w")
        s.check_commit_exact(c, "w", rule="C01")
        s.check_blame_tip("w", rule="C01")
        return s.kinds()
    finally:
        s.destroy()


def file_name_with_backslash():
    """D71: an agent adds two lines to a tracked file named `back\\slash.txt` (a backslash is an ordinary character in a Linux file
    name); commit => the note does not list them and blame reports them human (paths are normalised as if `\\` were a separator)."""
    s = Script("d71", files=1)
    try:
        name = "back\\slash.txt"
        f0 = [s.line("human") for _ in range(3)]
        s.files = [name]
        s.human_write(name, f0); s.commit_all("init")
        s.ai_write("S1", name, f0 + [s.line("S1"), s.line("S1")]); s.commit_all("ai")
        c = s.head()
        s.check_notes("w"); s.check_commit_exact(c, "w", rule="C01"); s.check_blame_tip("w", rule="C01")
        return s.kinds()
    finally:
        s.destroy()


def agent_creates_more_than_1000_files_in_a_new_directory():
    """D73 (fixed): one agent report names 1001 new files under a directory that does not exist in HEAD; commit => the note listed no
    file at all and every line was blamed on a person (above 1000 paths `git status` runs without pathspecs and collapses the wholly
    untracked directory into one `? gen/` record that no reported path matched; with 1000 files every file was recorded)."""
    s = Script("d73")
    try:
        s.human_write("f.txt", [s.line("human") for _ in range(3)])
        s.commit_all("init")
        names = ["gen/f%04d.txt" % i for i in range(1001)]
        s.w.human_ckpt(names)
        for f in names:
            s.write(f, [s.line("S1"), s.line("S1")])
        s.w.ai_ckpt("S1", names)
        s.commit_all("agent scaffolds 1001 files")
        c = s.head()
        s.check_notes("w")
        note = s.nr.note_for(c)
        listed = len(note.files) if note else 0
        if listed != 1001:
            s.violation("C01/missing-from-note", file="gen/*", line=0, listed_files=listed, expected_files=1001)
        s.check_blame_tip("w", rule="C01", files=["gen/f0000.txt", "gen/f0500.txt", "gen/f1000.txt"])
        return s.kinds()
    finally:
        s.destroy()


def pending_agent_lines_in_a_file_renamed_with_git_mv():
    """D97: an agent appends two lines to the tracked f.txt and reports them; `git mv f.txt r.txt`; `git commit -a` => the note lists
    nothing and both lines are a person's: pending attributions are keyed by path and nothing moves them along with a rename."""
    s = Script("d97", files=1)
    try:
        f0 = [s.line("human") for _ in range(3)]
        s.human_write("f.txt", f0); s.commit_all("init")
        s.ai_write("S1", "f.txt", f0 + [s.line("S1"), s.line("S1")])
        s.g("mv", "f.txt", "r.txt")
        s.files = ["r.txt"]
        s.g("commit", "-q", "-a", "-m", "renamed with pending agent lines")
        c = s.head()
        s.check_notes("w")
        s.check_commit_exact(c, "w", rule="C01")
        s.check_blame_tip("w", rule="C01", files=["r.txt"])
        return s.kinds()
    finally:
        s.destroy()
