"""Pinned witness for the C12 finding."""
from .common import Script
from ..ops import Hist


def notes_rewrite_ref_copies_note_verbatim():
    """D15: notes.rewriteRef=refs/notes/* + notes.rewrite.rebase=true; a rebase whose upstream inserted lines above the AI lines:
    git itself copies the old note to the new commit and git-ai then skips it (base_commit_sha names the old commit)."""
    class S(Script, Hist):
        pass
    s = S("d15", files=1)
    try:
        with open(s.w.gitconfig, "a") as f:
            f.write("[notes]\n\trewriteRef = refs/notes/*\n[notes \"rewrite\"]\n\trebase = true\n\tamend = true\n")
        f0 = [s.line("human") for _ in range(5)]
        s.human_write("f.txt", f0); s.commit_all("init")
        s.g("checkout", "-q", "-b", "feat")
        s.ai_write("S1", "f.txt", f0 + [s.line("S1"), s.line("S1")]); s.commit_all("feat")
        s.g("checkout", "-q", "main")
        s.human_write("f.txt", [s.line("human"), s.line("human")] + f0); s.commit_all("upstream")
        s.g("checkout", "-q", "feat")
        s.g("rebase", "main")
        s.check_notes("w")
        s.check_blame_tip("w", rule="C12")
        return s.kinds()
    finally:
        s.destroy()


def color_ui_always_hides_prompt_records_in_rebased_notes():
    """D46 (fixed): color.ui=always; a rebase whose upstream inserted lines above the AI lines in the same file (full replay): the
    rewritten note listed the session but had `"prompts": {}` because the coloured `git grep` output of the notes search was unparsable."""
    class S(Script, Hist):
        pass
    s = S("d46", files=1)
    try:
        with open(s.w.gitconfig, "a") as f:
            f.write("[color]\n\tui = always\n")
        f0 = [s.line("human") for _ in range(5)]
        s.human_write("f.txt", f0); s.commit_all("init")
        s.g("checkout", "-q", "-b", "feat")
        s.ai_write("S1", "f.txt", f0 + [s.line("S1"), s.line("S1")]); s.commit_all("feat")
        s.g("checkout", "-q", "main")
        s.human_write("f.txt", [s.line("human"), s.line("human")] + f0); s.commit_all("upstream")
        s.g("checkout", "-q", "feat")
        s.g("rebase", "main")
        s.check_notes("w")
        s.check_blame_tip("w", rule="C12")
        return s.kinds()
    finally:
        s.destroy()


def global_option_together_with_a_subdirectory():
    """D76 (fixed): `cd sub && git -c some.key=value commit` (likewise `git -C sub -c k=v commit` and `git -C repo -C sub commit`): the
    commit's note came out empty and the agent's lines were blamed on a person. Only an empty global-option list or exactly one `-C`
    was normalised to the work-tree root; with anything else the internal git calls ran in the sub-directory with root-relative
    pathspecs, which matched nothing."""
    import os
    kinds_all = []
    for variant in ("subdir-c", "C-sub-c", "C-C", "gitdir-worktree-sub"):
        s = Script("d76" + variant, files=1)
        try:
            b = [s.line("human") for _ in range(3)]
            os.makedirs(os.path.join(s.w.repo, "sub"), exist_ok=True)
            s.human_write("sub/f.txt", b); s.commit_all("init")
            s.ai_write("S1", "sub/f.txt", b + [s.line("S1"), s.line("S1")])
            sub = os.path.join(s.w.repo, "sub")
            s.g("add", "-A")
            if variant == "subdir-c":
                s.g("-c", "x.y=z", "commit", "-q", "-m", "c", repo=sub)
            elif variant == "gitdir-worktree-sub":
                s.g("--git-dir", os.path.join(s.w.repo, ".git"), "--work-tree", s.w.repo, "commit", "-q", "-m", "c", repo=sub)
            elif variant == "C-sub-c":
                s.g("-C", sub, "-c", "x.y=z", "commit", "-q", "-m", "c", repo=s.w.root)
            else:
                s.g("-C", s.w.repo, "-C", "sub", "commit", "-q", "-m", "c", repo=s.w.root)
            c = s.head()
            s.check_notes("w")
            s.check_commit_exact(c, "w", rule="C12")
            kinds_all += [k + "@" + variant for k in s.kinds()[0]]
        finally:
            s.destroy()
    return sorted(set(kinds_all)), kinds_all[:6]


def show_untracked_files_no_hides_agent_created_file():
    """D77 (fixed): with status.showUntrackedFiles=no in the user's configuration a file an agent has just created (still untracked) was
    invisible to the checkpoint's `git status`: the commit's note listed nothing and the lines were blamed on a person."""
    from ..engine import Scenario

    class S2(Script):
        def __init__(self, name, **p):
            prof = dict(hostile_content=False, decoys=False, sessions=3, files=1, human_ckpt_rate=0.0)
            prof.update(p)
            Scenario.__init__(self, "W" + name, 0, 0, prof, world_kwargs=dict(gitconfig_extra="[status]\n\tshowUntrackedFiles = no\n"))
    s = S2("d77")
    try:
        s.human_write("f.txt", [s.line("human") for _ in range(3)]); s.commit_all("init")
        s.ai_write("S1", "new.txt", [s.line("S1"), s.line("S1")])
        s.commit_all("agent creates a file")
        c = s.head()
        s.check_notes("w")
        s.check_commit_exact(c, "w", rule="C12")
        s.check_blame_tip("w", rule="C12")
        return s.kinds()
    finally:
        s.destroy()


def clone_with_dash_C_option_gets_the_notes():
    """D81 (fixed): `git -C <dir> clone <url> <name>` through the proxy: the post-clone step looked for <name> under the process's
    working directory instead of under <dir>, fetched no authorship notes, and `git-ai blame` in the fresh clone reported the agent's
    lines as a person's - while the same clone started from <dir> itself had them."""
    import json
    import os
    from ..props import c10
    net = c10.Net("WC12c", 1, 1)
    try:
        net.step(0, "commit"); net.step(0, "push")
        w = net.w
        w.git("checkout", "-q", "c0", cwd=net.clones[0], plain=True)
        res = {}
        for variant, argv, cwd in (("from-dir", ["clone", "-q", "-b", "c0", net.remote, "k1"], w.root),
                                   ("dash-C", ["-C", w.root, "clone", "-q", "-b", "c0", net.remote, "k2"], "/")):
            w.git(*argv, cwd=cwd)
            path = os.path.join(w.root, "k1" if variant == "from-dir" else "k2")
            p = w.ga("blame", "--json", "f0.txt", cwd=path)
            try:
                res[variant] = sorted(json.loads(p.stdout).get("lines", {}).items())
            except ValueError:
                res[variant] = "blame failed: " + p.stderr[-100:]
        kinds = [] if res["from-dir"] == res["dash-C"] and res["from-dir"] else ["C12/blame-differs@clone-dash-C"]
        return kinds, res
    finally:
        net.destroy()


def relative_git_dir_in_the_environment_from_a_subdirectory():
    """D88: `cd <repo>/sub; export GIT_DIR=../.git GIT_WORK_TREE=..` (both relative, as dot-file managers and some IDE integrations set
    them); an agent adds two lines to sub/f.txt and reports them; `git add f.txt; git commit` => the commit succeeds but gets no note and
    the lines are a person's: find_repository turns the invocation into `-C <top level>` for its internal git calls while the inherited
    relative GIT_DIR is then resolved against the top level instead of the start directory (with absolute values, and with
    GIT_DIR=.git from the root, the result is right)."""
    import os
    s = Script("d88", files=1)
    try:
        b = [s.line("human") for _ in range(3)]
        sub = os.path.join(s.w.repo, "sub")
        os.makedirs(sub, exist_ok=True)
        s.human_write("sub/f.txt", b); s.commit_all("init")
        env = {"GIT_DIR": "../.git", "GIT_WORK_TREE": ".."}
        lines = b + [s.line("S1"), s.line("S1")]
        p = s.w.ga("checkpoint", "agent-v1", "--hook-input", __import__("json").dumps({"type": "human", "repo_working_dir": s.w.repo, "will_edit_filepaths": ["sub/f.txt"]}), cwd=sub, env=env)
        s.write("sub/f.txt", lines)
        p = s.w.ga("checkpoint", "agent-v1", "--hook-input", __import__("json").dumps({"type": "ai_agent", "repo_working_dir": s.w.repo, "edited_filepaths": ["sub/f.txt"],
                   "transcript": {"messages": [{"type": "user", "text": "please edit"}]}, "agent_name": "tool", "model": "m", "conversation_id": "S1"}), cwd=sub, env=env)
        s.g("add", "f.txt", repo=sub, env=env)
        s.g("commit", "-q", "-m", "agent lines, repository located through a relative GIT_DIR", repo=sub, env=env)
        c = s.head()
        s.check_notes("w")
        s.check_commit_exact(c, "w", rule="C12")
        return s.kinds()
    finally:
        s.destroy()
