"""Pinned witness for the C12 finding."""
from .common import Script
from ..ops import Hist


def notes_rewrite_ref_copies_note_verbatim():
    """D15: notes.rewriteRef=refs/notes/* + notes.rewrite.rebase=true; a rebase whose upstream inserted lines above the AI lines:
    git itself copies the old note to the new commit and git-ai then skips it (base_commit_sha names the old commit)."""
    class S(Script, Hist):
        pass
    s = S("d15", files=1)
    try:
        with open(s.w.gitconfig, "a") as f:
            f.write("[notes]\n\trewriteRef = refs/notes/*\n[notes \"rewrite\"]\n\trebase = true\n\tamend = true\n")
        f0 = [s.line("human") for _ in range(5)]
        s.human_write("f.txt", f0); s.commit_all("init")
        s.g("checkout", "-q", "-b", "feat")
        s.ai_write("S1", "f.txt", f0 + [s.line("S1"), s.line("S1")]); s.commit_all("feat")
        s.g("checkout", "-q", "main")
        s.human_write("f.txt", [s.line("human"), s.line("human")] + f0); s.commit_all("upstream")
        s.g("checkout", "-q", "feat")
        s.g("rebase", "main")
        s.check_notes("w")
        s.check_blame_tip("w", rule="C12")
        return s.kinds()
    finally:
        s.destroy()


def color_ui_always_hides_prompt_records_in_rebased_notes():
    """D46 (fixed): color.ui=always; a rebase whose upstream inserted lines above the AI lines in the same file (full replay): the
    rewritten note listed the session but had `"prompts": {}` because the coloured `git grep` output of the notes search was unparsable."""
    class S(Script, Hist):
        pass
    s = S("d46", files=1)
    try:
        with open(s.w.gitconfig, "a") as f:
            f.write("[color]\n\tui = always\n")
        f0 = [s.line("human") for _ in range(5)]
        s.human_write("f.txt", f0); s.commit_all("init")
        s.g("checkout", "-q", "-b", "feat")
        s.ai_write("S1", "f.txt", f0 + [s.line("S1"), s.line("S1")]); s.commit_all("feat")
        s.g("checkout", "-q", "main")
        s.human_write("f.txt", [s.line("human"), s.line("human")] + f0); s.commit_all("upstream")
        s.g("checkout", "-q", "feat")
        s.g("rebase", "main")
        s.check_notes("w")
        s.check_blame_tip("w", rule="C12")
        return s.kinds()
    finally:
        s.destroy()
