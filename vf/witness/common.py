"""Helpers for pinned witness scenarios."""
from ..engine import Scenario


class Script(Scenario):
    """A scenario with a deterministic, hand-written script (no random choices)."""

    def __init__(self, name, **profile):
        prof = dict(hostile_content=False, decoys=False, sessions=3, files=1, human_ckpt_rate=0.0)
        prof.update(profile)
        super().__init__("W" + name, 0, 0, prof)

    def line(self, author, text=None):
        self.n += 1
        l = text if text is not None else "w%04d_%s" % (self.n, author[:2].lower())
        self.ledger.record(l, author)
        return l

    def human_write(self, f, lines, ckpt=False):
        if ckpt:
            self.w.human_ckpt([f])
        self.write(f, lines)

    def ai_write(self, session, f, lines):
        self.w.human_ckpt([f])
        self.write(f, lines)
        self.w.ai_ckpt(session, [f])

    def kinds(self):
        ks = set()
        for v in self.viol:
            k = v["kind"]
            if "file" in v and "line" in v:
                k += "@%s:%s" % (v["file"], v["line"])
            ks.add(k)
        return sorted(ks), [dict(v) for v in self.viol[:6]]
