"""Pinned witnesses for C13 findings (wrapper mode vs hooks mode)."""
from .common import Script
from ..ops import Hist


def _run(mode):
    class S(Script, Hist):
        pass
    s = S("d28" + mode, files=2)
    s.w.destroy()
    from ..world import World
    s.w = World(name="wd28", mode=mode)
    from .. import notes as N
    s.nr = N.NotesReader(s.w)
    try:
        f0 = [s.line("human") for _ in range(5)]; g0 = [s.line("human") for _ in range(3)]
        s.human_write("f.txt", f0); s.human_write("g.txt", g0); s.commit_all("init")
        a2 = [s.line("S1"), s.line("S1")]
        s.ai_write("S1", "f.txt", f0[:1] + a2 + f0[1:])
        s.g("stash", "push", "-q")
        s.human_write("g.txt", g0 + [s.line("human")]); s.commit_all("between")
        s.g("stash", "apply", "-q")
        s.commit_all("final")
        s.check_notes("w")
        s.check_blame_tip("w", rule="C13")
        return s.kinds()
    finally:
        s.destroy()


def stash_apply_after_head_moved_in_hooks_mode():
    """D28: AI lines stashed, a commit to another file, `git stash apply`, commit — kept in wrapper mode, lost in hooks mode."""
    kw, dw = _run("wrapper")
    kh, dh = _run("hooks")
    if kw:
        return ["wrapper-mode:" + k for k in kw], dw
    return kh, dh


def _run_rebase_i(mode, todo):
    class S(Script, Hist):
        pass
    s = S("d33" + mode, files=2)
    s.w.destroy()
    from ..world import World
    from .. import notes as N
    s.w = World(name="wd33", mode=mode)
    s.nr = N.NotesReader(s.w)
    try:
        f0 = [s.line("human") for _ in range(5)]; g0 = [s.line("human") for _ in range(4)]
        s.human_write("f.txt", f0); s.human_write("g.txt", g0); s.commit_all("init")
        s.g("checkout", "-q", "-b", "feat")
        s.ai_write("S1", "f.txt", [s.line("S1"), s.line("S1")] + f0); s.commit_all("feat0")
        s.ai_write("S2", "g.txt", g0[:1] + [s.line("S2")] + g0[1:]); s.commit_all("feat1")
        s.g("checkout", "-q", "main")
        s.human_write("up.txt", [s.line("human")]); s.commit_all("upstream")
        s.g("checkout", "-q", "feat")
        seq = s.make_seq_editor(todo)
        s.g("rebase", "-i", "main", env={"GIT_SEQUENCE_EDITOR": seq})
        s.g("checkout", "-q", "main"); s.g("merge", "-q", "--ff-only", "feat")
        s.commit_all("final")
        s.check_notes("w")
        s.check_blame_tip("w", rule="C13")
        return s.kinds()
    finally:
        s.destroy()


def interactive_rebase_reorder_in_hooks_mode():
    """D33: `git rebase -i` that reorders two AI commits (different files): attribution kept in wrapper mode, lost in hooks mode."""
    kw, dw = _run_rebase_i("wrapper", "reorder")
    kh, dh = _run_rebase_i("hooks", "reorder")
    if kw:
        return ["wrapper-mode:" + k for k in kw], dw
    return kh, dh


def pull_rebase_drops_local_commit_that_upstream_has():
    """D65: a local commit with S1's line is also upstream as an identical patch (cherry-picked there by plain git, after an upstream-only
    commit); `git pull --rebase --autostash` drops the local commit as already applied. Through the wrapper S1's line stays S1's, with
    git-ai installed as git hooks it becomes human (upstream's copy has no note and the dropped commit's note is not mapped onto it)."""
    from ..engine import Scenario
    from .c02 import _mk
    out = {}
    for mode in ("wrapper", "hooks"):
        s = _mk("d65" + mode)
        s.destroy()
        cls = type(s)
        s = cls.__new__(cls)
        Scenario.__init__(s, "Wd65", 0, 0, dict(hostile_content=False, decoys=False, sessions=2, files=2, human_ckpt_rate=0.0), world_kwargs=dict(mode=mode))
        try:
            s.files = ["f.txt", "g.txt"]
            s.human_write("f.txt", [s.line("human") for _ in range(4)]); s.human_write("g.txt", [s.line("human") for _ in range(4)]); s.commit_all("init")
            s.op_pull(kind="rebase-autostash-dup")
            s.check_notes("w"); s.commit_all("final"); s.check_blame_tip("w", rule="C13")
            out[mode] = s.kinds()[0]
        finally:
            s.destroy()
    kinds = []
    if out["wrapper"]:
        kinds += ["wrapper:" + k for k in out["wrapper"]]
    if any(k.startswith("C13/lost") for k in out["hooks"]):
        kinds.append("C13/lost@hooks-pull-dup")
    kinds += [k for k in out["hooks"] if not k.startswith("C13/lost")]
    return kinds, [out]


def _run_rebase_abort(mode, how="abort"):
    class S(Script, Hist):
        pass
    s = S("d86" + mode, files=2)
    s.w.destroy()
    from ..world import World
    from .. import notes as N
    s.w = World(name="wd86", mode=mode)
    s.nr = N.NotesReader(s.w)
    try:
        f0 = [s.line("human") for _ in range(4)]
        s.human_write("f.txt", f0); s.commit_all("init")
        s.g("checkout", "-q", "-b", "topic")
        s.human_write("f.txt", f0[:1] + [s.line("human")] + f0[2:]); s.commit_all("topic changes line 2")
        s.g("checkout", "-q", "main")
        s.human_write("f.txt", f0[:1] + [s.line("human")] + f0[2:]); s.commit_all("main changes line 2 too")
        s.g("checkout", "-q", "topic")
        s.g("rebase", "main")                      # stops on the conflict
        s.g("rebase", "--abort")
        s.ai_write("S1", "g.txt", [s.line("S1"), s.line("S1")])
        s.commit_all("agent's file, committed after the aborted rebase")
        s.check_notes("w")
        s.check_blame_tip("w", rule="C13")
        return s.kinds()
    finally:
        s.destroy()


def commit_after_aborted_rebase_in_hooks_mode():
    """D86: `git rebase main` stops on a conflict, `git rebase --abort`; an agent writes g.txt; commit => with the wrapper the note lists
    g.txt 1-2, with git-ai installed as repository hooks the commit gets no note at all and the lines are a person's (pre-rebase masks
    the managed pre-commit / post-commit / reference-transaction hooks; `rebase --abort` fires neither post-rewrite nor post-checkout, so
    they stay masked until some later checkout or rewrite)."""
    kw, dw = _run_rebase_abort("wrapper")
    kh, dh = _run_rebase_abort("hooks")
    if kw:
        return ["wrapper-mode:" + k for k in kw], dw
    return kh, dh
