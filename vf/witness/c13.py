"""Pinned witnesses for C13 findings (wrapper mode vs hooks mode)."""
from .common import Script
from ..ops import Hist


def _run(mode):
    class S(Script, Hist):
        pass
    s = S("d28" + mode, files=2)
    s.w.destroy()
    from ..world import World
    s.w = World(name="wd28", mode=mode)
    from .. import notes as N
    s.nr = N.NotesReader(s.w)
    try:
        f0 = [s.line("human") for _ in range(5)]; g0 = [s.line("human") for _ in range(3)]
        s.human_write("f.txt", f0); s.human_write("g.txt", g0); s.commit_all("init")
        a2 = [s.line("S1"), s.line("S1")]
        s.ai_write("S1", "f.txt", f0[:1] + a2 + f0[1:])
        s.g("stash", "push", "-q")
        s.human_write("g.txt", g0 + [s.line("human")]); s.commit_all("between")
        s.g("stash", "apply", "-q")
        s.commit_all("final")
        s.check_notes("w")
        s.check_blame_tip("w", rule="C13")
        return s.kinds()
    finally:
        s.destroy()


def stash_apply_after_head_moved_in_hooks_mode():
    """D28: AI lines stashed, a commit to another file, `git stash apply`, commit — kept in wrapper mode, lost in hooks mode."""
    kw, dw = _run("wrapper")
    kh, dh = _run("hooks")
    if kw:
        return ["wrapper-mode:" + k for k in kw], dw
    return kh, dh


def _run_rebase_i(mode, todo):
    class S(Script, Hist):
        pass
    s = S("d33" + mode, files=2)
    s.w.destroy()
    from ..world import World
    from .. import notes as N
    s.w = World(name="wd33", mode=mode)
    s.nr = N.NotesReader(s.w)
    try:
        f0 = [s.line("human") for _ in range(5)]; g0 = [s.line("human") for _ in range(4)]
        s.human_write("f.txt", f0); s.human_write("g.txt", g0); s.commit_all("init")
        s.g("checkout", "-q", "-b", "feat")
        s.ai_write("S1", "f.txt", [s.line("S1"), s.line("S1")] + f0); s.commit_all("feat0")
        s.ai_write("S2", "g.txt", g0[:1] + [s.line("S2")] + g0[1:]); s.commit_all("feat1")
        s.g("checkout", "-q", "main")
        s.human_write("up.txt", [s.line("human")]); s.commit_all("upstream")
        s.g("checkout", "-q", "feat")
        seq = s.make_seq_editor(todo)
        s.g("rebase", "-i", "main", env={"GIT_SEQUENCE_EDITOR": seq})
        s.g("checkout", "-q", "main"); s.g("merge", "-q", "--ff-only", "feat")
        s.commit_all("final")
        s.check_notes("w")
        s.check_blame_tip("w", rule="C13")
        return s.kinds()
    finally:
        s.destroy()


def interactive_rebase_reorder_in_hooks_mode():
    """D33: `git rebase -i` that reorders two AI commits (different files): attribution kept in wrapper mode, lost in hooks mode."""
    kw, dw = _run_rebase_i("wrapper", "reorder")
    kh, dh = _run_rebase_i("hooks", "reorder")
    if kw:
        return ["wrapper-mode:" + k for k in kw], dw
    return kh, dh
