"""Pinned witness for the C04 finding."""
from .common import Script


def unstaged_deletion_above_committed_ai_lines():
    """D75: an agent adds two lines below line 1 of f.txt and a person adds one line above them; everything is staged; then, in the
    work tree only, the person deletes line 1 (not staged); `git commit` (from the index) => the note lists lines 2-3 instead of 3-4:
    the person's line is credited to the session and the agent's second line is lost. The work-tree -> commit line translation only
    subtracts lines the work tree ADDS relative to the commit; lines it REMOVES (a deletion, or the old side of a replacement hunk
    such as a staged line reworded next to left-out lines) are not added back."""
    s = Script("d75")
    try:
        b = [s.line("human") for _ in range(3)]
        s.human_write("f.txt", b); s.commit_all("init")
        x, a1, a2 = s.line("human"), s.line("S1"), s.line("S1")
        s.ai_write("S1", "f.txt", [b[0], a1, a2, b[1], b[2]])
        s.human_write("f.txt", [b[0], x, a1, a2, b[1], b[2]])
        s.g("add", "--", "f.txt")
        s.human_write("f.txt", [x, a1, a2, b[1], b[2]])          # line 1 deleted in the work tree only
        s.g("commit", "-q", "-m", "from the index")
        c = s.head()
        s.check_notes("w")
        s.check_commit_exact(c, "w", rule="C04")
        return s.kinds()
    finally:
        s.destroy()
