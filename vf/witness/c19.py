"""Pinned witness for the C19 finding."""
from .common import Script
from ..ops import Hist


def line_listed_by_two_sessions_counts_twice():
    """D32: a note in which two sessions list the same added line (as merged / foreign notes can) => stats counts it twice."""
    from ..props import c19

    class S(Script, Hist):
        pass
    s = S("d32", files=1)
    try:
        f0 = [s.line("human") for _ in range(3)]
        s.human_write("f.txt", f0); s.commit_all("init")
        s.ai_write("S1", "f.txt", f0 + [s.line("S1")]); s.commit_all("ai")
        c19.inject_overlap(s)
        c19.check_commit_stats(s, s.head())
        return sorted({v["kind"] for v in s.viol}), [dict(v) for v in s.viol[:5]]
    finally:
        s.destroy()


def root_commit_stats_under_log_showroot_false():
    """D78 (fixed): with log.showRoot=false in the user's configuration `git-ai stats <root commit> --json` reported 0 added lines (the
    `git show --numstat` it parses prints no diff for a root commit then), so human_additions + ai_accepted != added and
    ai_additions > added."""
    from ..props import c19
    from ..engine import Scenario

    class S2(Script, Hist):
        def __init__(self, name, **p):
            prof = dict(hostile_content=False, decoys=False, sessions=3, files=1, human_ckpt_rate=0.0)
            prof.update(p)
            Scenario.__init__(self, "W" + name, 0, 0, prof, world_kwargs=dict(gitconfig_extra="[log]\n\tshowRoot = false\n"))
    s = S2("d78")
    try:
        s.ai_write("S1", "new.txt", [s.line("S1"), s.line("S1")])
        s.human_write("h.txt", [s.line("human")])
        s.commit_all("root commit with an agent's file")
        c19.check_commit_stats(s, s.head())
        return sorted({v["kind"] for v in s.viol}), [dict(v) for v in s.viol[:5]]
    finally:
        s.destroy()


def ignored_file_with_a_path_git_quotes():
    """D85 (fixed): an agent writes `föo.lock` (2 lines, ignored by the default pattern *.lock) and one line of ok.txt in one commit =>
    `git-ai stats` counted the lock file's lines as added (and as human additions): the ignore patterns were matched against the raw
    path column of `git show --numstat`, which is the C-quoted form "f\\303\\266o.lock" (it ends with a double quote, so *.lock does
    not match), while the note side and the diff side use the unquoted path."""
    from ..props import c19

    class S(Script, Hist):
        pass
    s = S("d85", files=1)
    try:
        s.human_write("ok.txt", [s.line("human") for _ in range(2)]); s.commit_all("init")
        s.ai_write("S1", "föo.lock", [s.line("S1"), s.line("S1")])
        s.ai_write("S1", "dír/package-lock.json", [s.line("S1")])
        s.ai_write("S1", "ok.txt", s.read("ok.txt") + [s.line("S1")])
        s.commit_all("ignored files with non-ASCII paths")
        c19.check_commit_stats(s, s.head())
        return sorted({v["kind"] for v in s.viol}), [dict(v) for v in s.viol[:5]]
    finally:
        s.destroy()
