"""Pinned witness for the C19 finding."""
from .common import Script
from ..ops import Hist


def line_listed_by_two_sessions_counts_twice():
    """D32: a note in which two sessions list the same added line (as merged / foreign notes can) => stats counts it twice."""
    from ..props import c19

    class S(Script, Hist):
        pass
    s = S("d32", files=1)
    try:
        f0 = [s.line("human") for _ in range(3)]
        s.human_write("f.txt", f0); s.commit_all("init")
        s.ai_write("S1", "f.txt", f0 + [s.line("S1")]); s.commit_all("ai")
        c19.inject_overlap(s)
        c19.check_commit_stats(s, s.head())
        return sorted({v["kind"] for v in s.viol}), [dict(v) for v in s.viol[:5]]
    finally:
        s.destroy()
