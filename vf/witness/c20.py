"""Pinned witness for the C20 finding."""
import random

from ..world import World
from ..props import c20


def file_of_nested_repository_edited_from_outer_repository():
    """D53: <repo>/vendor/inner is an independent repository inside the outer work tree; an agent hook started in the outer repository
    reports an edit of vendor/inner/a.txt => exit 0, but the edit is recorded neither in the inner repository (which contains the file)
    nor anywhere else, so the agent's lines are later committed there as human."""
    w = World(name="WC20", mode="wrapper", init=True)
    try:
        lay = c20.build_layout(w, "nested")
        lay["files"] = {"nested-repo": lay["files"]["nested-repo"]}
        lay["cwds"] = [lay["main"]]
        viol, stats = [], {}
        c20.completeness_probe(w, lay, random.Random(1), viol, stats, only="nested-repo")
        return sorted({v["kind"] + "@" + v["path_class"] for v in viol}), viol[:1]
    finally:
        w.destroy()


def cross_repo_report_with_dotdot_path_after_earlier_agent_report():
    """D72 (fixed): <repo>/vendor/inner is an independent repository nested in <repo>. An agent first reports an edit of <repo>/a.txt
    (hook started in <repo>). A later report, started in the inner repository, names ../../dir/b.txt (a file of the outer repository, by a
    relative path) => exit 0 and "Cross-repo checkpoint ... completed", but dir/b.txt was not recorded in the outer repository (the
    un-normalised name vendor/inner/../../dir/b.txt matched nothing once the working log already held an agent checkpoint)."""
    import json
    import os
    from ..world import BIN, run
    w = World(name="WC20b", mode="wrapper", init=True)
    try:
        lay = c20.build_layout(w, "nested")
        main, inner = lay["main"], lay["nested"]

        def report(cwd, names, conv, kind):
            if kind == "pre":
                pl = {"type": "human", "repo_working_dir": cwd, "will_edit_filepaths": names}
            else:
                pl = {"type": "ai_agent", "repo_working_dir": cwd, "edited_filepaths": names, "transcript": {"messages": [{"type": "user", "text": "x"}]},
                      "agent_name": "tool", "model": "m", "conversation_id": conv}
            return run([BIN, "checkpoint", "agent-v1", "--hook-input", json.dumps(pl)], cwd, w.env(), timeout=60)
        a = os.path.join(main, "a.txt")
        report(main, [a], "A", "pre"); open(a, "a").write("agent line 1\n"); report(main, [a], "A", "post")
        b = os.path.join(main, "dir", "b.txt")
        names = [os.path.relpath(b, inner)]
        report(inner, names, "B", "pre"); open(b, "a").write("agent line 2\n"); pr = report(inner, names, "B", "post")
        kinds = []
        if pr.rc != 0:
            kinds.append("C20/nonzero-exit")
        if "dir/b.txt" not in c20.recorded_files(w, main):
            kinds.append("C20/edited-file-not-recorded-in-its-repository@dotdot-cross-repo")
        probs, _ = c20.scan_logs(w, lay)
        kinds += sorted({p["kind"] for p in probs})
        return kinds, dict(stderr=pr.stderr[-300:], recorded=sorted(c20.recorded_files(w, main)))
    finally:
        w.destroy()


def report_naming_only_files_outside_any_repository():
    """D98 (fixed): a person has changed f.txt and created a.txt (nothing reported); an agent report names only a file that is in no
    repository at all (`edited_filepaths: ["/.../nowhere/x.txt"]`), hook started in the repository => exit 0 and "will be skipped", but
    the person's lines in f.txt and a.txt were recorded as the agent's: with every named path filtered out the file list became
    `no restriction` and the checkpoint swept the whole work tree."""
    from ..witness.common import Script
    import json
    import os
    s = Script("d98", files=1)
    try:
        f0 = [s.line("human") for _ in range(3)]
        s.human_write("f.txt", f0); s.commit_all("init")
        s.human_write("f.txt", f0 + [s.line("human"), s.line("human")])
        s.human_write("a.txt", [s.line("human")])
        outside = os.path.join(s.w.root, "nowhere", "x.txt")
        os.makedirs(os.path.dirname(outside)); open(outside, "w").write("x\n")
        payload = {"type": "ai_agent", "repo_working_dir": s.w.repo, "edited_filepaths": [outside], "transcript": {"messages": [{"type": "user", "text": "hi"}]},
                   "agent_name": "tool", "model": "m", "conversation_id": "S1"}
        p = s.w.ga("checkpoint", "agent-v1", "--hook-input", json.dumps(payload))
        if p.rc != 0:
            s.violation("C20/nonzero-exit", rc=p.rc, stderr=p.stderr[-200:])
        s.commit_all("the person's work")
        s.check_notes("w")
        s.check_blame_tip("w", rule="C20")
        return s.kinds()
    finally:
        s.destroy()


def transcript_path_that_is_a_named_pipe():
    """D100: `git-ai checkpoint gemini` with a `transcript_path` that is a named pipe nobody writes to => the hook never returns (the
    transcript is read with an unguarded read_to_string; codex, continue-cli and others read theirs the same way), so the agent that
    called the hook hangs. Edited files that are pipes, directories or missing are handled."""
    import json
    import os
    w = World(name="WC20c", mode="wrapper", init=True)
    try:
        w.write_bytes("f.txt", b"one\ntwo\n"); w.git("add", "-A", plain=True); w.git("commit", "-q", "-m", "init", plain=True)
        fifo = os.path.join(w.root, "tr.fifo")
        os.mkfifo(fifo)
        w.write_bytes("f.txt", b"one\ntwo\nthree\n")
        payload = {"session_id": "s", "transcript_path": fifo, "cwd": w.repo, "hook_event_name": "AfterTool", "tool_input": {"file_path": os.path.join(w.repo, "f.txt")}}
        pr = c20.run_hook([BIN_PATH(), "checkpoint", "gemini", "--hook-input", json.dumps(payload)], w.repo, w.env(), None)
        kinds = []
        if pr.rc == -998:
            kinds.append("C20/hook-blocked-for-ever@transcript-fifo")
        elif pr.rc == -999:
            kinds.append("harness:watchdog-without-verdict")
        elif pr.rc != 0:
            kinds.append("C20/nonzero-exit@transcript-fifo")
        return kinds, [dict(rc=pr.rc, stderr=pr.stderr[-200:])]
    finally:
        w.destroy()


def BIN_PATH():
    from ..world import BIN
    return BIN
