"""Pinned witness for the C20 finding."""
import random

from ..world import World
from ..props import c20


def file_of_nested_repository_edited_from_outer_repository():
    """D53: <repo>/vendor/inner is an independent repository inside the outer work tree; an agent hook started in the outer repository
    reports an edit of vendor/inner/a.txt => exit 0, but the edit is recorded neither in the inner repository (which contains the file)
    nor anywhere else, so the agent's lines are later committed there as human."""
    w = World(name="WC20", mode="wrapper", init=True)
    try:
        lay = c20.build_layout(w, "nested")
        lay["files"] = {"nested-repo": lay["files"]["nested-repo"]}
        lay["cwds"] = [lay["main"]]
        viol, stats = [], {}
        c20.completeness_probe(w, lay, random.Random(1), viol, stats, only="nested-repo")
        return sorted({v["kind"] + "@" + v["path_class"] for v in viol}), viol[:1]
    finally:
        w.destroy()
