"""Pinned witnesses for C09 findings (blame)."""
from .common import Script
from ..ops import Hist


class _S(Script, Hist):
    pass


def blame_of_empty_tracked_file():
    """D14: `git-ai blame` on an empty tracked file exits 1 ("Invalid line range: 1:0"); git blame exits 0 with no output."""
    from ..props import c09
    s = _S("d14", files=1)
    try:
        s.human_write("f.txt", [s.line("human")])
        s.w.write_bytes("empty.txt", b"")
        s.commit_all("init")
        c09.compare_one(s, "empty.txt", [], "w", {})
        return sorted({v["kind"] for v in s.viol}), [dict(v) for v in s.viol[:3]]
    finally:
        s.destroy()


def rename_without_edit_keeps_ai_lines():
    """D7 (fixed): AI lines committed in f.txt; `git mv f.txt g.txt`; commit; blame g.txt must still report them AI."""
    from ..props import c09
    s = _S("d7", files=1)
    try:
        f0 = [s.line("human") for _ in range(3)]
        s.human_write("f.txt", f0); s.commit_all("init")
        s.ai_write("S1", "f.txt", f0 + [s.line("S1"), s.line("S1")]); s.commit_all("ai")
        s.g("mv", "f.txt", "g.txt"); s.commit_all("mv")
        s.files = ["g.txt"]
        c09.compare_one(s, "g.txt", [], "w", {})
        s.check_blame_tip("w", rule="C09", files=["g.txt"])
        return s.kinds()
    finally:
        s.destroy()


def _two_commit_file(name):
    from ..props import c09
    s = _S(name, files=1)
    f0 = [s.line("human") for _ in range(4)]
    s.human_write("f.txt", f0); s.commit_all("init")
    s.ai_write("S1", "f.txt", f0[:2] + [s.line("S1") for _ in range(3)] + f0[2:] + [s.line("S1")]); s.commit_all("ai")
    return s, c09


def relative_and_open_ended_line_ranges():
    """D59: git blame's -L forms other than `a,b`: `3,+2` (two lines from 3) is read as 3..2 and refused, `5,-2`, `3,` and `,4` are
    refused, `3` (from line 3 to the end) is read as the single line 3."""
    s, c09 = _two_commit_file("d59")
    try:
        kinds = set()
        for opts in (["-L", "3,+2"], ["-L", "5,-2"], ["-L", "3,"], ["-L", ",4"], ["-L", "3"]):
            s.viol = []
            c09.compare_one(s, "f.txt", opts, "w", {})
            kinds |= {"%s@-L %s" % (v["kind"], opts[1]) for v in s.viol}
        return sorted(kinds), []
    finally:
        s.destroy()


def ignore_whitespace_option():
    """D60: `git-ai blame -w f.txt` is refused with `Unknown option: -w` (git blame -w blames the same file ignoring whitespace)."""
    s, c09 = _two_commit_file("d60")
    try:
        c09.compare_one(s, "f.txt", ["-w"], "w", {})
        return sorted({v["kind"] for v in s.viol}), [dict(v) for v in s.viol[:3]]
    finally:
        s.destroy()


def porcelain_blame_of_a_dirty_work_tree():
    """D93: the work tree has one more (uncommitted) line than HEAD; `git-ai blame --porcelain f.txt` / `--line-porcelain` abort with
    exit 1 in the middle of their output (the summary of commit 0000000 is looked up with `cat-file`); git blame names the all-zero
    commit for that line. The default format and `--incremental` handle the same work tree."""
    s, c09 = _two_commit_file("d93")
    try:
        s.human_write("f.txt", s.read("f.txt") + [s.line("human")])      # not committed
        c09.compare_one(s, "f.txt", [], "w-dirty", {})
        return sorted({v["kind"] + "@" + " ".join(v.get("opts") or []) + ("/" + v["flavour"] if v.get("flavour") else "") for v in s.viol}), [dict(v) for v in s.viol[:4]]
    finally:
        s.destroy()
