"""Pinned witness for the C06 finding."""
from ..twin import Twin


def html_path_followed_by_command():
    """D9: `git --html-path status` — git prints the documentation path and exits; through the proxy `status` runs instead."""
    t = Twin("WD9", 0, 0, hooks_kind="none")
    try:
        t.write_both("a.txt", "x\n")
        t.run("add", "-A"); t.run("commit", "-q", "-m", "init")
        t.diffs = []
        t.run("--html-path", "status")
        kinds = sorted({"C06/" + d["diffs"][0]["what"] + "@" + " ".join(d["cmd"]) for d in t.diffs})
        return kinds, t.diffs[:2]
    finally:
        t.destroy()


def push_dry_run_short_option_changes_the_remote():
    """D87 (fixed): `git push -n origin main` (the short form of --dry-run) after a commit with an agent's line: plain git leaves the remote
    untouched; through the proxy the remote received refs/notes/ai (only the literal `--dry-run` was recognised)."""
    import os
    t = Twin("WD87", 0, 0, hooks_kind="none")
    try:
        rem = {}
        for w in (t.A, t.B):
            rem[w] = os.path.join(w.root, "remote.git")
            w.ogit("init", "-q", "--bare", "-b", "main", rem[w], cwd=w.root)
            w.git("remote", "add", "origin", rem[w], plain=True, tick=False)
        t.write_both("a.txt", "x\n")
        t.run("add", "-A"); t.run("commit", "-q", "-m", "init")
        t.run("push", "-q", "origin", "main")
        t.ai_edit()
        t.run("add", "-A"); t.run("commit", "-q", "-m", "agent work")
        before = {w: w.ogit("for-each-ref", "--format=%(refname) %(objectname)", cwd=rem[w]) for w in (t.A, t.B)}
        t.diffs = []
        for form in (["push", "-n", "origin", "main"], ["push", "--dry-run", "origin", "main"], ["push", "-nq", "origin", "main"]):
            t.run(*form, compare_stdout=False)
            for w, name in ((t.A, "proxy"), (t.B, "plain")):
                after = w.ogit("for-each-ref", "--format=%(refname) %(objectname)", cwd=rem[w])
                if after != before[w]:
                    t.diffs.append(dict(cmd=form, diffs=[dict(what="remote-changed-by-dry-run", world=name, before=before[w], after=after)]))
                    before[w] = after
        kinds = sorted({"C06/" + d["diffs"][0]["what"] + "@" + " ".join(d["cmd"]) for d in t.diffs})
        return kinds, t.diffs[:2]
    finally:
        t.destroy()
