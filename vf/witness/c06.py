"""Pinned witness for the C06 finding."""
from ..twin import Twin


def html_path_followed_by_command():
    """D9: `git --html-path status` — git prints the documentation path and exits; through the proxy `status` runs instead."""
    t = Twin("WD9", 0, 0, hooks_kind="none")
    try:
        t.write_both("a.txt", "x\n")
        t.run("add", "-A"); t.run("commit", "-q", "-m", "init")
        t.diffs = []
        t.run("--html-path", "status")
        kinds = sorted({"C06/" + d["diffs"][0]["what"] + "@" + " ".join(d["cmd"]) for d in t.diffs})
        return kinds, t.diffs[:2]
    finally:
        t.destroy()
