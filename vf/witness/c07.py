"""Pinned witness for the C07 finding."""
import glob
import os

from .common import Script


def journal_deleted_between_person_checkpoint_and_agent_report():
    """D67: a person's uncommitted lines are on record (IDE-style checkpoint); `.git/ai/working_logs/<HEAD>/checkpoints.jsonl` is then
    deleted (likewise: emptied, or the record's content snapshot under blobs/ deleted or damaged); an agent appends a line to the same
    file and reports it; commit => the note credits the agent's session with the person's lines as well (attribution is invented)."""
    s = Script("d67", files=1)
    try:
        f0 = [s.line("human") for _ in range(4)]
        s.human_write("f.txt", f0); s.commit_all("init")
        person = [s.line("human"), s.line("human")]
        s.human_write("f.txt", f0[:1] + person + f0[1:])
        s.w.human_ckpt(["f.txt"])
        for j in glob.glob(os.path.join(s.w.repo, ".git", "ai", "working_logs", "*", "checkpoints.jsonl")):
            os.remove(j)
        s.write("f.txt", f0[:1] + person + f0[1:] + [s.line("S1")])
        s.w.ai_ckpt("S1", ["f.txt"])
        s.commit_all("after the journal was lost")
        s.check_notes("w")
        kinds, detail = s.kinds()
        return (["C07/attribution-invented-after-journal-loss"] if any(k.startswith("C03/unsound-note") for k in kinds) else []) + \
            [k for k in kinds if not k.startswith("C03/unsound")], detail
    finally:
        s.destroy()
