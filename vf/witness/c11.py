"""Pinned witness schedules for the C11 findings."""
from ..props import c11


def _kinds(kind, choices, want):
    ser = c11.serial_outcomes(kind)
    r = c11.scenario(kind, choices)
    if r.get("inconclusive"):
        raise RuntimeError(r["inconclusive"])
    kinds = []
    if r["outcome"] not in ser:
        if c11.overlapping_windows(r["seq"], domains=r.get("domains"), is_git=r.get("is_git")):
            kinds.append("C11/not-serializable@overlapping-journal-windows")
        elif r.get("stale"):
            kinds.append("C11/not-serializable@stale-base-append")
        elif c11.report_straddles_git_command(r["seq"], r.get("is_git") or []):
            kinds.append("C11/not-serializable@report-straddles-git-command")
        else:
            kinds.append("C11/not-serializable")
    kinds += [v["kind"] for v in r["viol"]]
    return kinds, dict(pair=kind, schedule=r["seq"], outcome=r["outcome"], serial=ser)


def two_checkpoints_both_read_before_either_writes():
    """D8: agents S1 (a.txt) and S2 (b.txt) report at the same time; both processes read checkpoints.jsonl before either writes it back:
    the second write drops the first record (always choosing the other process alternates them through their read points)."""
    return _kinds("ckpt-ckpt-diff", [0, 1, 0, 1, 0, 1, 0, 1, 0, 1, 0, 1], None)


def checkpoint_started_before_commit_lands_after():
    """D45: an agent report for b.txt starts (resolves HEAD) while `git commit` of a.txt is running and is scheduled entirely after the
    commit process exits: it appends to working_logs/<old HEAD>, which no later commit reads."""
    return _kinds("ckpt-commit", [0] * 40, None)


def report_read_before_stash_appended_after():
    """D74: S1's reported line in a.txt is pending; an agent report for b.txt starts and reads the journal (its list of files to look at
    includes a.txt); `git stash push -- a.txt` then runs to completion (snapshots a.txt's attribution into the stash note, removes its
    entries from the working log, reverts the file); the report continues, finds a.txt without agent lines and appends an entry for it
    with no attribution, which later shadows the attribution that `stash pop` restores: S1's line is committed as human."""
    return _kinds("ckpt-stash", [1, 1] + [0] * 38, None)


def two_cherry_picks_in_two_worktrees_both_read_the_notes_tip():
    """D79 (fixed): `git cherry-pick srcA` in the main work tree and `git cherry-pick srcB` in a linked work tree; both processes read the
    tip of refs/notes/ai before either runs its `fast-import`: the second import was refused as a non-fast-forward update and that
    commit's note was dropped (S2's line blamed on a person). The batched notes writer now re-reads the tip and tries again."""
    return _kinds("cherry-cherry-wt", [0, 0, 0, 0, 1, 1, 1, 0, 0], None)
