"""Pinned witnesses for C16 findings (explicit inputs evaluated in-process through `probe c16eval`)."""
import json
import os
import subprocess

from .. import runner as R

A, C = "aaaaaaaaaaaaaaa1", "ccccccccccccccc3"


def ev(old, new, prior, author):
    p = subprocess.run([R.PROBE, "c16eval"], input=json.dumps(dict(old=old, new=new, prior=prior, author=author)).encode(),
                       stdout=subprocess.PIPE, stderr=subprocess.PIPE, env=dict(os.environ, GIT_AI_DEBUG="0"), timeout=300)
    return json.loads(p.stdout.decode("utf-8", "replace").strip().split("\n")[-1])


def insertions_around_last_line_without_newline():
    """D39: old text is one AI(C) line without final newline; session A inserts one line before and one after it =>
    the untouched line 2 is re-attributed to A."""
    old = "++ tok396252_cc v587"
    new = "++ tok396254_aa v520\n++ tok396252_cc v587\ntok396253_aa v389"
    r = ev(old, new, [[0, len(old), C, 1]], A)
    got = dict((k, v) for k, v in r.get("ai_lines", []))
    kinds = []
    if got.get(2) != C:
        kinds.append("C16/unchanged-line-changed-author@line2")
    return kinds, [r]


def crlf_flip_of_large_file():
    """D38: a 3000-line file (all lines AI(C), > 32 KiB) is converted LF -> CRLF by a person => some lines lose their author."""
    lines = ["é tok%05d_cc v%d" % (i, i) for i in range(3000)]
    old = "\n".join(lines) + "\n"
    new = "\r\n".join(lines) + "\r\n"
    r = ev(old, new, [[0, len(old.encode()), C, 1]], "human")
    n = len(r.get("ai_lines", []))
    kinds = []
    if n != 3000 or r.get("bounds_problem"):
        kinds.append("C16/whitespace-reformat-changed-author@large")
    return kinds, [dict(ai_lines_after=n, bounds_problem=r.get("bounds_problem"))]


def eol_flip_after_unterminated_quote():
    """D51: line 1 (session C) contains an opening double quote that is never closed (`# note "unterminated \\`), line 2 is session A's;
    a person... here session C converts the file from LF to CRLF (whitespace only) => line 2 is re-attributed to C: the tokenizer lexes
    the unterminated literal across the line break, so the changed line terminator falls inside a non-whitespace token."""
    l1, l2 = '# tok03046_cc v62 "unterminated \\', "tok03047_aa v426"
    old = l1 + "\n" + l2 + "\n"
    new = l1 + "\r\n" + l2 + "\r\n"
    r = ev(old, new, [[0, len(l1) + 1, C, 1], [len(l1) + 1, len(old), A, 1]], C)
    got = dict((k, v) for k, v in r.get("ai_lines", []))
    kinds = []
    if got.get(2) != A:
        kinds.append("C16/whitespace-reformat-changed-author@unterminated-quote")
    return kinds, [r]


SPLIT_MOVE = {
 "apart": {
  "old": "++ tok00100_hu v888\ntok00101_hu v463\ntok00102_hu v772\n\ttok00200_aa v255\n\ttok00201_aa v112\n\"q\" tok00202_aa v189\n    tok00300_cc v297\n++ tok00301_cc v171\n-- tok00302_cc v261\n日本語 tok00400_aa v974\n-- tok00401_aa v672\n\ttok00402_aa v663\n🙂 tok00403_aa v301\nlet x = tok00404_aa v719\n    tok00405_aa v508\nlet x = tok00406_aa v116\ntok00407_aa v319\n# tok00408_aa v351\n# tok00409_aa v815\n@@ -1 +1 @@ tok00410_aa v264\n++ tok00411_aa v259\n🙂 tok00412_aa v522\n@@ -1 +1 @@ tok00413_aa v988\n\"q\" tok00500_cc v442\ntok00501_cc v230\n",
  "new": "++ tok00100_hu v888\ntok00101_hu v463\ntok00102_hu v772\n日本語 tok00400_aa v974\n-- tok00401_aa v672\n\ttok00402_aa v663\n🙂 tok00403_aa v301\nlet x = tok00404_aa v719\n    tok00405_aa v508\nlet x = tok00406_aa v116\n    tok00300_cc v297\n++ tok00301_cc v171\n-- tok00302_cc v261\ntok00407_aa v319\n# tok00408_aa v351\n# tok00409_aa v815\n@@ -1 +1 @@ tok00410_aa v264\n++ tok00411_aa v259\n🙂 tok00412_aa v522\n@@ -1 +1 @@ tok00413_aa v988\n\ttok00200_aa v255\n\ttok00201_aa v112\n\"q\" tok00202_aa v189\n\"q\" tok00500_cc v442\ntok00501_cc v230\n"
 },
 "together": {
  "old": "é tok00100_hu v191\nlet x = tok00101_hu v547\ntok00102_hu v47\n🙂 tok00200_aa v977\n@@ -1 +1 @@ tok00201_aa v665\n    tok00202_aa v753\n    tok00300_cc v519\n    tok00301_cc v878\n日本語 tok00302_cc v642\né tok00400_aa v383\n    tok00401_aa v669\n++ tok00402_aa v189\n# tok00403_aa v33\n\ttok00404_aa v906\n\"q\" tok00405_aa v728\n@@ -1 +1 @@ tok00406_aa v63\n@@ -1 +1 @@ tok00407_aa v857\n\ttok00408_aa v334\n\"q\" tok00409_aa v412\n@@ -1 +1 @@ tok00410_aa v368\ntok00411_aa v237\n\ttok00412_aa v714\n\"q\" tok00413_aa v6\n@@ -1 +1 @@ tok00500_cc v99\n-- tok00501_cc v228\n",
  "new": "é tok00100_hu v191\nlet x = tok00101_hu v547\ntok00102_hu v47\né tok00400_aa v383\n    tok00401_aa v669\n++ tok00402_aa v189\n# tok00403_aa v33\n\ttok00404_aa v906\n\"q\" tok00405_aa v728\n@@ -1 +1 @@ tok00406_aa v63\n@@ -1 +1 @@ tok00407_aa v857\n\ttok00408_aa v334\n\"q\" tok00409_aa v412\n@@ -1 +1 @@ tok00410_aa v368\ntok00411_aa v237\n\ttok00412_aa v714\n\"q\" tok00413_aa v6\n    tok00300_cc v519\n    tok00301_cc v878\n日本語 tok00302_cc v642\n🙂 tok00200_aa v977\n@@ -1 +1 @@ tok00201_aa v665\n    tok00202_aa v753\n@@ -1 +1 @@ tok00500_cc v99\n-- tok00501_cc v228\n"
 }
}


SPLIT_MOVE["bounds"] = {
 "old": "á tok03732_cc v957\r\n日本語 tok03733_cc v694\r\nlet x = tok03734_cc v709\r\n🙂 tok03735_cc v413\r\ntok03736_cc v675 '\\é'\r\n# tok03737_cc v123\r\n日本語 tok03738_cc v669\r\n\"q\" tok03739_cc v25\r\n    tok03740_hu v371 'it\\'s'\r\né tok03741_hu v998\r\ná tok03742_hu v907\r\n@@ -1 +1 @@ tok03743_hu v206\r\n-- tok03744_hu v254\r\nlet x = tok03745_hu v458\r\n-- tok03746_hu v842\r\né tok03747_hu v806\r\n🙂 tok03748_hu v207\r\n🙂 tok03749_hu v391\r\n++ tok03750_hu v987 \"C:\\été\\data\"\r\ná tok03751_hu v360\r\ntok03752_hu v778\r\n-- tok03753_hu v490 '\\é'\r\ntok03754_hu v642\r\n🙂 tok03755_hu v76\r\né tok03756_hu v370 '\\é'\r\n\ttok03757_hu v59\r\ná tok03758_hu v722\r\ná tok03759_hu v554\r\ná tok03760_hu v286 '\\é'\r\nlet x = tok03761_hu v215\r\ná tok03762_bb v870\r\n",
 "new": "á tok03732_cc v957\r\n日本語 tok03733_cc v694\r\nlet x = tok03734_cc v709\r\nlet x = tok03745_hu v458\r\n-- tok03746_hu v842\r\né tok03747_hu v806\r\n🙂 tok03748_hu v207\r\n🙂 tok03749_hu v391\r\n++ tok03750_hu v987 \"C:\\été\\data\"\r\n    tok03740_hu v371 'it\\'s'\r\né tok03741_hu v998\r\ná tok03742_hu v907\r\n@@ -1 +1 @@ tok03743_hu v206\r\n-- tok03744_hu v254\r\ná tok03751_hu v360\r\ntok03752_hu v778\r\n-- tok03753_hu v490 '\\é'\r\ntok03754_hu v642\r\n🙂 tok03755_hu v76\r\né tok03756_hu v370 '\\é'\r\n\ttok03757_hu v59\r\ná tok03758_hu v722\r\ná tok03759_hu v554\r\ná tok03760_hu v286 '\\é'\r\nlet x = tok03761_hu v215\r\n🙂 tok03735_cc v413\r\ntok03736_cc v675 '\\é'\r\n# tok03737_cc v123\r\n日本語 tok03738_cc v669\r\n\"q\" tok03739_cc v25\r\ná tok03762_bb v870\r\n"
}


def _split_move(shape):
    d = SPLIT_MOVE[shape]
    old, new = d["old"], d["new"]
    prior = []
    pos = 0
    for t in old.split("\n")[:-1]:
        a = {"hu": "human", "aa": A, "cc": C, "bb": "bbbbbbbbbbbbbbb2"}[t.split("_")[1][:2]]
        n = len(t.encode()) + 1
        prior.append([pos, pos + n, a, 1])
        pos += n
    r = ev(old, new, prior, A)
    got = dict((k, v) for k, v in r.get("ai_lines", []))
    bad = []
    for i, t in enumerate(new.split("\n")[:-1], 1):
        a = {"hu": "human", "aa": A, "cc": C, "bb": "bbbbbbbbbbbbbbb2"}[t.split("_")[1][:2]]
        if got.get(i, "human") != a:
            bad.append((i, t, a, got.get(i, "human")))
    return bad, r


def split_block_moved_apart_and_together():
    """D61: session A moves the two halves (3 lines of A, 3 lines of C) of one contiguous block, in one edit, below a longer run of
    untouched lines, swapped. Apart: the untouched line of A right after the landed C half is re-attributed to C. Together: the first
    line of the landed A half is attributed to C. (The token diff slides the insertion boundary across tokens the block shares with
    its new neighbour.)  With multi-byte line prefixes (third input) the boundary lands inside a character: a returned range is not
    on character boundaries."""
    kinds = []
    b1, r1 = _split_move("apart")
    if b1:
        kinds.append("C16/unchanged-line-changed-author@split-move-apart")
    b2, r2 = _split_move("together")
    if b2:
        kinds.append("C16/moved-block-lost-author@split-move-together")
    b3, r3 = _split_move("bounds")
    if r3.get("bounds_problem"):
        kinds.append("C16/bounds-update@split-move-multibyte")
    return kinds, [dict(apart=b1, together=b2, bounds=r3.get("bounds_problem"))]
