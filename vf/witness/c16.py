"""Pinned witnesses for C16 findings (explicit inputs evaluated in-process through `probe c16eval`)."""
import json
import os
import subprocess

from .. import runner as R

A, C = "aaaaaaaaaaaaaaa1", "ccccccccccccccc3"


def ev(old, new, prior, author):
    p = subprocess.run([R.PROBE, "c16eval"], input=json.dumps(dict(old=old, new=new, prior=prior, author=author)).encode(),
                       stdout=subprocess.PIPE, stderr=subprocess.PIPE, env=dict(os.environ, GIT_AI_DEBUG="0"), timeout=300)
    return json.loads(p.stdout.decode("utf-8", "replace").strip().split("\n")[-1])


def insertions_around_last_line_without_newline():
    """D39: old text is one AI(C) line without final newline; session A inserts one line before and one after it =>
    the untouched line 2 is re-attributed to A."""
    old = "++ tok396252_cc v587"
    new = "++ tok396254_aa v520\n++ tok396252_cc v587\ntok396253_aa v389"
    r = ev(old, new, [[0, len(old), C, 1]], A)
    got = dict((k, v) for k, v in r.get("ai_lines", []))
    kinds = []
    if got.get(2) != C:
        kinds.append("C16/unchanged-line-changed-author@line2")
    return kinds, [r]


def crlf_flip_of_large_file():
    """D38: a 3000-line file (all lines AI(C), > 32 KiB) is converted LF -> CRLF by a person => some lines lose their author."""
    lines = ["é tok%05d_cc v%d" % (i, i) for i in range(3000)]
    old = "\n".join(lines) + "\n"
    new = "\r\n".join(lines) + "\r\n"
    r = ev(old, new, [[0, len(old.encode()), C, 1]], "human")
    n = len(r.get("ai_lines", []))
    kinds = []
    if n != 3000 or r.get("bounds_problem"):
        kinds.append("C16/whitespace-reformat-changed-author@large")
    return kinds, [dict(ai_lines_after=n, bounds_problem=r.get("bounds_problem"))]
