"""Pinned witnesses for C16 findings (explicit inputs evaluated in-process through `probe c16eval`)."""
import json
import os
import subprocess

from .. import runner as R

A, C = "aaaaaaaaaaaaaaa1", "ccccccccccccccc3"


def ev(old, new, prior, author):
    p = subprocess.run([R.PROBE, "c16eval"], input=json.dumps(dict(old=old, new=new, prior=prior, author=author)).encode(),
                       stdout=subprocess.PIPE, stderr=subprocess.PIPE, env=dict(os.environ, GIT_AI_DEBUG="0"), timeout=300)
    return json.loads(p.stdout.decode("utf-8", "replace").strip().split("\n")[-1])


def insertions_around_last_line_without_newline():
    """D39: old text is one AI(C) line without final newline; session A inserts one line before and one after it =>
    the untouched line 2 is re-attributed to A."""
    old = "++ tok396252_cc v587"
    new = "++ tok396254_aa v520\n++ tok396252_cc v587\ntok396253_aa v389"
    r = ev(old, new, [[0, len(old), C, 1]], A)
    got = dict((k, v) for k, v in r.get("ai_lines", []))
    kinds = []
    if got.get(2) != C:
        kinds.append("C16/unchanged-line-changed-author@line2")
    return kinds, [r]


def crlf_flip_of_large_file():
    """D38: a 3000-line file (all lines AI(C), > 32 KiB) is converted LF -> CRLF by a person => some lines lose their author."""
    lines = ["é tok%05d_cc v%d" % (i, i) for i in range(3000)]
    old = "\n".join(lines) + "\n"
    new = "\r\n".join(lines) + "\r\n"
    r = ev(old, new, [[0, len(old.encode()), C, 1]], "human")
    n = len(r.get("ai_lines", []))
    kinds = []
    if n != 3000 or r.get("bounds_problem"):
        kinds.append("C16/whitespace-reformat-changed-author@large")
    return kinds, [dict(ai_lines_after=n, bounds_problem=r.get("bounds_problem"))]


def eol_flip_after_unterminated_quote():
    """D51: line 1 (session C) contains an opening double quote that is never closed (`# note "unterminated \\`), line 2 is session A's;
    a person... here session C converts the file from LF to CRLF (whitespace only) => line 2 is re-attributed to C: the tokenizer lexes
    the unterminated literal across the line break, so the changed line terminator falls inside a non-whitespace token."""
    l1, l2 = '# tok03046_cc v62 "unterminated \\', "tok03047_aa v426"
    old = l1 + "\n" + l2 + "\n"
    new = l1 + "\r\n" + l2 + "\r\n"
    r = ev(old, new, [[0, len(l1) + 1, C, 1], [len(l1) + 1, len(old), A, 1]], C)
    got = dict((k, v) for k, v in r.get("ai_lines", []))
    kinds = []
    if got.get(2) != A:
        kinds.append("C16/whitespace-reformat-changed-author@unterminated-quote")
    return kinds, [r]
