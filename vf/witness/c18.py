"""Pinned witnesses for C18 / C06 findings about the argument vector handed to git."""
from ..twin import Twin


def _twin_cmd(*argv, aliases=()):
    t = Twin("WC18", 0, 0, hooks_kind="none")
    try:
        for n, v in aliases:
            for w in (t.A, t.B):
                w.git("config", "alias." + n, v, plain=True, tick=False)
        t.write_both("a.txt", "x\n")
        t.run("add", "-A"); t.run("commit", "-q", "-m", "init")
        t.diffs = []; t.argv_problems = []
        t.run(*argv)
        kinds = sorted({"C06/" + d["diffs"][0]["what"] for d in t.diffs} | {"C18/proxied-argv-differs" for _ in t.argv_problems})
        return kinds, dict(diffs=t.diffs[:2], argv=t.argv_problems[:2])
    finally:
        t.destroy()


def alias_is_handed_to_git_expanded():
    """D41: with alias.st='status -s', `git st` through the proxy hands git `status -s` instead of `st`."""
    return _twin_cmd("st", aliases=[("st", "status -s")])


def top_level_double_dash_is_swallowed():
    """D42: `git -- status`: plain git fails with 'unknown option: --' (exit 129); the proxy drops the `--` and runs status."""
    return _twin_cmd("--", "status")


def version_option_drops_trailing_arguments():
    """D44: `git --version status -s`: plain git runs `git version status -s` and fails (exit 129, unknown switch); the proxy runs `git version`."""
    return _twin_cmd("--version", "status", "-s")
