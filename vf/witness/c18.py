"""Pinned witnesses for C18 / C06 findings about the argument vector handed to git."""
from ..twin import Twin


def _twin_cmd(*argv, aliases=()):
    t = Twin("WC18", 0, 0, hooks_kind="none")
    try:
        for n, v in aliases:
            for w in (t.A, t.B):
                w.git("config", "alias." + n, v, plain=True, tick=False)
        t.write_both("a.txt", "x\n")
        t.run("add", "-A"); t.run("commit", "-q", "-m", "init")
        t.diffs = []; t.argv_problems = []
        t.run(*argv)
        kinds = sorted({"C06/" + d["diffs"][0]["what"] for d in t.diffs} | {"C18/proxied-argv-differs" for _ in t.argv_problems})
        return kinds, dict(diffs=t.diffs[:2], argv=t.argv_problems[:2])
    finally:
        t.destroy()


def alias_is_handed_to_git_expanded():
    """D41: with alias.st='status -s', `git st` through the proxy hands git `status -s` instead of `st`."""
    return _twin_cmd("st", aliases=[("st", "status -s")])


def top_level_double_dash_is_swallowed():
    """D42: `git -- status`: plain git fails with 'unknown option: --' (exit 129); the proxy drops the `--` and runs status."""
    return _twin_cmd("--", "status")


def version_option_drops_trailing_arguments():
    """D44: `git --version status -s`: plain git runs `git version status -s` and fails (exit 129, unknown switch); the proxy runs `git version`."""
    return _twin_cmd("--version", "status", "-s")


def _alias_tokens(value, tag):
    """git's own split of an alias value (GIT_TRACE) against parse_alias_tokens (probe)."""
    import json, re, shlex, subprocess
    from .. import runner as R
    from ..world import World, REAL_GIT
    w = World(name="WC18a", mode="plain")
    try:
        w.write_bytes("a.txt", b"x\n"); w.git("add", "-A", plain=True); w.git("commit", "-q", "-m", "init", plain=True)
        p = subprocess.run([REAL_GIT, "-c", "alias.zz=" + value, "zz"], cwd=w.repo, env=dict(w.env(), GIT_TRACE="1"), stdout=subprocess.PIPE, stderr=subprocess.PIPE)
        err = p.stderr.decode("utf-8", "replace")
        m = re.search(r"trace: alias expansion: zz => (.*)", err)
        git = shlex.split(m.group(1)) if m else ("rejected" if "bad alias" in err else None)
        q = subprocess.run([R.PROBE, "c18alias", value], stdout=subprocess.PIPE, stderr=subprocess.PIPE, env=dict(GIT_AI_DEBUG="0", HOME="/nonexistent-home"))
        ours = json.loads(q.stdout)["tokens"]
        same = (ours == git) if git != "rejected" else (ours is None)
        return ([] if same else ["C18/alias-tokens-differ@" + tag]), dict(value=value, git=git, git_ai=ours)
    finally:
        w.destroy()


def alias_value_with_empty_quoted_argument():
    """D48 (fixed): alias value `log ''` — git splits it into `log` and an empty argument; parse_alias_tokens dropped the empty one."""
    return _alias_tokens("log ''", "empty-quoted")


def alias_value_ending_in_backslash():
    """D49: alias value `log -1\\` — git rejects it (cmdline ends with \\); parse_alias_tokens keeps the backslash (pinned by a unit test)."""
    return _alias_tokens("log -1\\", "trailing-backslash")


def alias_shadowing_a_builtin_is_ignored():
    """D80 (fixed): alias.commit='status -s' - git never expands an alias named like one of its own commands, so `git commit -q -a -m x`
    commits; the proxy expanded the alias and handed git `status -s -q -a -m x` (exit 129, nothing committed)."""
    t = Twin("WC18b", 0, 0, hooks_kind="none")
    try:
        for w in (t.A, t.B):
            w.git("config", "alias.commit", "status -s", plain=True, tick=False)
            w.git("config", "alias.log", "status -s", plain=True, tick=False)
        t.write_both("a.txt", "x\n")
        t.run("add", "-A"); t.run("commit", "-q", "-m", "init")
        t.write_both("a.txt", "x\ny\n")
        t.diffs = []; t.argv_problems = []
        t.run("commit", "-q", "-a", "-m", "second")
        t.run("log", "--oneline")
        kinds = sorted({"C06/" + d["diffs"][0]["what"] for d in t.diffs} | {"C18/proxied-argv-differs" for _ in t.argv_problems})
        return kinds, dict(diffs=t.diffs[:2], argv=t.argv_problems[:2])
    finally:
        t.destroy()
