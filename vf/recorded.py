"""Replay of a recorded scenario: the concrete actions and checks of a run, independent of the generators."""
import json
import os

from .engine import Scenario, Ledger, FileStyle
from .ops import Hist
from .world import World
from . import notes as N


def replay(recording, keep=False):
    """Re-execute a recording (dict from Scenario.recording()). Returns (kinds, violations)."""
    w = World(name="rec", **{k: v for k, v in recording["world"].items() if k != "init_args"}, init_args=tuple(recording["world"].get("init_args") or ()))
    w.rec = []
    prof = dict(recording["profile"])
    sc = Hist("REC", 0, 0, prof, world=w)
    sc.sessions = list(recording["sessions"])
    from .world import session_hash
    sc.h2s = {session_hash(s): s for s in sc.sessions}
    lg = Ledger()
    L = recording["ledger"]
    lg.author = dict(L["author"])
    lg.introduced = {k: set(v) for k, v in L["introduced"].items()}
    lg.decoys = set(L["decoys"]); lg.optional = set(L["optional"])
    lg.ws_touch = {k: set(v) for k, v in L.get("ws_touch", {}).items()}
    sc.ledger = lg
    sc.ws_keys = set(recording.get("ws_keys", []))
    sc.styles = {f: FileStyle(a, b) for f, (a, b) in recording.get("styles", {}).items()}
    root = w.root

    def unrel(v):
        if isinstance(v, str):
            return v.replace("{ROOT}", root)
        if isinstance(v, list):
            return [unrel(x) for x in v]
        if isinstance(v, dict):
            return {k: unrel(x) for k, x in v.items()}
        return v

    try:
        first_init_skipped = False
        for r in recording["rec"]:
            k = r["k"]
            if k == "write":
                import base64
                data = base64.b64decode(r["b64"]) if "b64" in r else r["data"].encode("utf-8")
                w.write_bytes(r["f"], data, unrel(r["repo"]) if r.get("repo") else None)
            elif k == "git":
                if not first_init_skipped and r["args"][:1] == ["init"]:
                    first_init_skipped = True
                    continue
                w.step = r["step"] - (1 if r.get("tick", True) else 0)
                inp = r.get("input")
                w.git(*unrel(r["args"]), cwd=unrel(r["cwd"]) if r.get("cwd") else None, plain=r.get("plain", False), env=unrel(r["env"]) if r.get("env") else None,
                      input=inp.encode("utf-8", "surrogateescape") if isinstance(inp, str) else None, tick=r.get("tick", True))
            elif k == "ga":
                w.step = r["step"]
                inp = r.get("input")
                p = w.ga(*unrel(r["args"]), cwd=unrel(r["cwd"]) if r.get("cwd") else None, env=unrel(r["env"]) if r.get("env") else None,
                         input=inp.encode("utf-8", "surrogateescape") if isinstance(inp, str) else None)
            elif k == "ogit":
                inp = r.get("input")
                w.ogit(*unrel(r["args"]), cwd=unrel(r["cwd"]) if r.get("cwd") else None,
                       input=unrel(inp).encode("utf-8", "surrogateescape") if isinstance(inp, str) else None)
            elif k == "check":
                what = r["what"]
                if what == "notes":
                    sc.check_notes(r["where"])
                elif what == "blame_tip":
                    sc.check_blame_tip(r["where"], complete=r.get("complete", True), files=r.get("files"), rule=r.get("rule", "C01"))
                elif what == "stats_all":
                    from .props import c19
                    for sha in w.ogit("rev-list", "--all", "--no-merges").split():
                        c19.check_commit_stats(sc, sha)
                elif what == "commit_exact":
                    sc.check_commit_exact(r["commit"], r["where"], rule=r.get("rule", "C01"), parent=r.get("parent"), complete=r.get("complete", True))
        ks = set()
        for v in sc.viol:
            kk = v["kind"]
            if "file" in v and "line" in v:
                kk += "@%s:%s" % (v["file"], v["line"])
            ks.add(kk)
        return sorted(ks), [dict(v) for v in sc.viol[:8]]
    finally:
        if not keep:
            w.destroy()
        else:
            print("WORLD", w.root)


def replay_file(path, keep=False):
    j = json.load(open(path))
    rec = j.get("recording") or j
    return replay(rec, keep=keep)
