"""Scenario engine: ground-truth ledger, edits, agent protocol, git porcelain ops and the global monitors.

The ledger maps key(line) = line with all whitespace removed -> author.  Every
generated line carries a token unique in its world, so the expected author of a
line anywhere (any commit, branch, after any rewrite) is a function of content.
"""
import json
import os
import random
import re
from collections import Counter

from . import notes as N
from .world import World, session_hash, Panic

HOSTILE_PREFIXES = ["++ ", "-- ", "@@ -1 +1 @@ ", "diff --git a/x b/x ", "\\ No newline at end of file ", "+++ b/", "--- a/",
                    "\t", "    ", "# ", "let x = ", "日本語 ", "\"q\" ", "'s' ", "é ", "🙂 ", "<<<<<<< ", "======= ", "index 0000..1111 "]
PLAIN_PREFIXES = ["", "", "", "", "    ", "\t", "let x = ", "# "]
# lines that, once git prefixes them with + or -, look like unified-diff headers, hunk headers or markers
DIFFY_PREFIXES = ["++ ", "-- ", "++ b/", "-- a/", "+++ b/", "--- a/", "@@ -1 +1 @@ ", "@@ -3,2 +3,4 @@ ", "diff --git a/x b/x ", "\\ No newline at end of file ",
                  "+", "-", "+ ", "- ", "++", "--", "+++ ", "--- ", "index 0000000..1111111 100644 ", "new file mode 100644 ", "Binary files a/x and b/x differ "]
FILENAMES_PLAIN = ["a.txt", "b.txt", "src/c.rs", "docs/d.md"]
FILENAMES_HOSTILE = ["sp ace.txt", "unié中.txt", "-dash.txt", "q'uote.txt", "dir with sp/in ner.txt", "tab\tname.txt",
                     "plus+++.txt", "a b/c d.txt", "@@.txt", "0123456789abcdef", "CON.txt", "deep/er/and/deeper/x.txt",
                     # a non-ASCII character directly followed by an octal digit (git quotes the byte as \251, the digit follows)
                     "résumé2024.txt", "notes é7/日本5.txt"]

FILENAMES_EXTREME = ["---", "  lead.txt", 'dq"uote.txt', "nl\nname.txt", '"quoted".txt', "trail .txt", "x\\y.txt", "semi;colon &amp.txt"]

WS = re.compile(r"\s+")


def key(line):
    return WS.sub("", line)


class Violation(dict):
    pass


class Ledger:
    def __init__(self):
        self.author = {}          # key -> author of the last substantive change
        self.introduced = {}      # key -> set(authors who ever wrote this exact content)   (for decoys)
        self.decoys = set()       # keys that are not unique by construction (blank / duplicated)
        self.ws_touch = {}        # key -> AI sessions that changed only whitespace of that line (finding D24 tolerance)
        self.optional = set()     # keys written *during* an operation (conflict resolution): AI attribution allowed, not required

    def record(self, line, author):
        k = key(line)
        self.introduced.setdefault(k, set()).add(author)
        if k in self.author and self.author[k] != author:
            self.decoys.add(k)
        self.author[k] = author
        if k == "":
            self.decoys.add(k)

    def expected(self, line):
        return self.author.get(key(line), "human")

    def is_decoy(self, line):
        return key(line) in self.decoys

    def ever(self, line):
        return self.introduced.get(key(line), set())


class FileStyle:
    __slots__ = ("eol", "final_nl")

    def __init__(self, eol="\n", final_nl=True):
        self.eol, self.final_nl = eol, final_nl


DEFAULT_PROFILE = dict(
    sessions=2,                # number of AI sessions
    files=2,                   # number of files
    hostile_content=True,      # hostile line prefixes
    hostile_names=False,       # unusual file names
    crlf=False, no_final_nl=False,
    decoys=False,              # blank / duplicated lines
    intraline=True,            # intra-line modifications
    reindent=True,             # whitespace-only edits
    human_ckpt_rate=0.0,       # probability of an IDE-style human checkpoint before a human edit
    human_edit_on_pending_unreported=True,  # a person edits a file that carries pending INITIAL claims without any checkpoint (finding D3' shape)
    reindent_delete_combo=True,   # a re-indent sharing a checkpoint interval with other edits of the person (finding D13 shape)
    intraline_cross_author=True,  # intra-line modification of a line last written by another author (finding D30 when off)
    unreported_human_edit_before_rewrite=True,  # a person's edit not reported before reset/stash/switch/amend (finding D29 when off)
    ai_ws_touch_strict=True,      # a line whose whitespace an AI session changed must not be credited to that session (finding D24 when False)
    slow_path_strict_notes=True,  # assert every line listed by notes of the full rebase/cherry-pick replay (finding D16 when False: only added lines)
    reindent_committed_ai=True,   # whitespace-only edits of AI lines already contained in HEAD (finding D17)
    reset_over_removed_lines=True,   # reset --soft/--mixed past commits (or with pending edits) that delete / replace lines (finding D58 when off)
    restore_with_initial_pending=True,   # `git restore` of a file that carries INITIAL-only pending claims (finding D55 when off)
    pull_dup_commit_ai=True,      # pull --rebase drops a local commit with agent lines that upstream has as an identical patch (finding D65 when off)
    switch_m_untracked_new_file=True,   # checkout/switch -m to another commit while an agent-created untracked file is carried (finding D69 when off)
    stash_with_untracked_initial_pending=True,   # git stash while an untracked agent file has INITIAL-only claims (finding D70 when off)
    reset_path_dash_name=True,    # `git reset -- <name starting with a dash>` (finding D56 when off)
    unstaged_replacement_hunks=True,   # an agent's unstaged replacement of lines that a plain commit adds from the index (finding D82 when off)
)


class Scenario:
    """One generated history against one world. Subclasses / drivers call ops and monitors."""

    def __init__(self, prop, seed, index, profile=None, world_kwargs=None, world=None):
        self.prop, self.seed, self.index = prop, seed, index
        self.rng = random.Random("%s:%s:%s" % (seed, prop, index))
        self.profile = dict(DEFAULT_PROFILE)
        if profile:
            self.profile.update(profile)
        self.w = world or World(name="%s-%d" % (prop, index), **(world_kwargs or {}))
        self.ledger = Ledger()
        self.n = 0
        self.log = []
        self.viol = []
        self.stats = Counter()
        self.ops = []            # op-kind sequence (shape signature)
        self.sessions = ["S%d" % (i + 1) for i in range(self.profile["sessions"])]
        # agent identity per session: one tool / model for all by default; distinct ones when the property quantifies over tools (C19)
        self.tool = {s: ("tool", "m") for s in self.sessions}
        if self.profile.get("multi_tool"):
            self.tool = {s: ("tool%d" % (i % 2 + 1), "m%d" % (i + 1)) for i, s in enumerate(self.sessions)}
        self.h2s = {session_hash(s, tool=self.tool[s][0]): s for s in self.sessions}
        self.styles = {}
        self.files = []
        self.nr = N.NotesReader(self.w)
        self._validated = set()  # (commit, blob) pairs already validated
        self.inconclusive = None
        self.branch_n = 0
        self.variant = set()       # C14 metamorphic variants: extra_human_ckpt, repeat, split, readonly
        self.vrng = random.Random("%s:%s:%s:variant" % (seed, prop, index))
        self._slow_commits = set()
        self._trace_size = -1
        self.ws_keys = set()       # keys of lines that some commit changed in whitespace only (finding D17 class)
        self._ws_scanned = set()
        self.exempt_ws_committed = not self.profile.get("reindent_committed_ai", True)

    # ------------------------------------------------------------------ content
    def fresh(self, author, hostile=None):
        self.n += 1
        hostile = self.profile["hostile_content"] if hostile is None else hostile
        pre = self.rng.choice(HOSTILE_PREFIXES + PLAIN_PREFIXES * 3) if hostile else self.rng.choice(PLAIN_PREFIXES)
        if self.profile.get("diff_syntax") and self.rng.random() < 0.6:
            pre = self.rng.choice(DIFFY_PREFIXES)
        line = "%sw%dk%04d_%s v%d" % (pre, self.index, self.n, author[:2].lower(), self.rng.randrange(1000))
        if self.profile.get("long_lines") and self.rng.random() < 0.03:
            line += " " + "x" * self.rng.choice([300, 5000])
        self.ledger.record(line, author)
        return line

    def decoy(self, author, lines):
        r = self.rng.random()
        if r < 0.5 or not lines:
            line = ""
        else:
            line = self.rng.choice(lines)
        self.ledger.record(line, author)
        self.ledger.decoys.add(key(line))
        return line

    def new_lines(self, author, k, lines):
        out = []
        for _ in range(k):
            if self.profile["decoys"] and self.rng.random() < 0.12:
                out.append(self.decoy(author, lines))
            else:
                out.append(self.fresh(author))
        return out

    def pick_pos(self, lines, adjacent_to_other=None):
        """Insertion position biased to start / end / borders of other authors' lines."""
        n = len(lines)
        r = self.rng.random()
        if self.profile.get("edge_bias"):
            r = r * 0.7      # first / last line far more often
        if n == 0 or r < 0.2:
            return 0
        if r < 0.4:
            return n
        if r < 0.7 and adjacent_to_other is not None:
            borders = [i for i in range(1, n) if (self.ledger.expected(lines[i - 1]) == adjacent_to_other) != (self.ledger.expected(lines[i]) == adjacent_to_other)]
            if borders:
                return self.rng.choice(borders)
        return self.rng.randrange(n + 1)

    def edit_lines(self, lines, author, kinds=None, committed_keys=None):
        """Mutate `lines` in place as `author`; returns a short description."""
        p = self.profile
        kinds = kinds or ["ins"] * 9 + ["del"] * 3 + ["rep"] * 3 + (["mod"] * 3 if p["intraline"] else []) + (["indent"] * 2 if p["reindent"] else [])
        if getattr(self, "force_kinds", None):
            kinds = [k for k in kinds if k in self.force_kinds] or list(self.force_kinds)
        kind = self.rng.choice(kinds) if lines else "ins"
        if kind == "ins":
            pos = self.pick_pos(lines, adjacent_to_other=author)
            k = self.rng.choice([1, 1, 2, 2, 3, 5] if not self.profile.get("edge_bias") else [1, 1, 1, 2])
            lines[pos:pos] = self.new_lines(author, k, lines)
            return "ins@%d+%d" % (pos, k)
        if kind == "del":
            a = self.rng.randrange(len(lines)); b = min(len(lines), a + self.rng.choice([1, 1, 2, 3]))
            del lines[a:b]
            return "del@%d-%d" % (a, b)
        if kind == "rep":
            a = self.rng.randrange(len(lines)); b = min(len(lines), a + self.rng.choice([1, 1, 2, 3]))
            k = self.rng.choice([1, 1, 2, 3])
            lines[a:b] = self.new_lines(author, k, lines)
            return "rep@%d-%d+%d" % (a, b, k)
        if kind == "mod":
            cands = [i for i, l in enumerate(lines) if not self.ledger.is_decoy(l) and key(l)]
            if not p.get("intraline_cross_author", True):
                # finding D30: an intra-line change by another author can be re-derived wrongly by later content-based
                # reconstruction (reset / squash / rebase replay); while it is open authors only modify their own lines
                cands = [i for i in cands if self.ledger.expected(lines[i]) == author]
            if not cands:
                return self.edit_lines(lines, author, ["ins"])
            a = self.rng.choice(cands)
            self.n += 1
            newtok = "m%dk%04d" % (self.index, self.n)
            toks = lines[a].split(" ")
            how = self.rng.choice(["append", "mid", "replace"])
            if how == "append" or len(toks) < 2:
                toks.append(newtok)
            elif how == "mid":
                toks.insert(self.rng.randrange(1, len(toks)), newtok)
            else:
                toks[-1] = newtok
            lines[a] = " ".join(toks)
            self.ledger.record(lines[a], author)
            return "mod@%d:%s" % (a, how)
        if kind == "indent":
            a = self.rng.randrange(len(lines)); b = min(len(lines), a + self.rng.choice([1, 2, 4]))
            how = self.rng.choice(["in", "tab", "trail"])
            idx = list(range(a, b))
            if self.exempt_ws_committed and committed_keys is not None:
                # finding D17 shape: whitespace-only edit of an AI line that HEAD already contains; remember the key so that
                # completeness is not asserted for it later (the commit that does it may become unreachable, e.g. after reset)
                for i in idx:
                    if key(lines[i]) in committed_keys and self.ledger.expected(lines[i]) != "human":
                        self.ws_keys.add(key(lines[i]))
            if False:
                # finding D17: a whitespace-only edit of an AI line that an earlier commit already contains
                # makes the line human; keep that shape out of random exploration while the finding is open
                idx = [i for i in idx if not (key(lines[i]) in committed_keys and self.ledger.expected(lines[i]) != "human")]
            if author != "human":
                for i in idx:
                    self.ledger.ws_touch.setdefault(key(lines[i]), set()).add(author)
            for i in idx:
                if how == "in":
                    lines[i] = "  " + lines[i]
                elif how == "tab":
                    lines[i] = "\t" + lines[i].lstrip(" ")
                else:
                    lines[i] = lines[i].rstrip() + "  "
            return "indent@%d-%d:%s" % (a, b, how)
        raise ValueError(kind)

    # ------------------------------------------------------------------ files
    def style(self, f):
        if f not in self.styles:
            p = self.profile
            self.styles[f] = FileStyle("\r\n" if p["crlf"] and self.rng.random() < 0.3 else "\n",
                                       not (p["no_final_nl"] and self.rng.random() < 0.3))
        return self.styles[f]

    def read(self, f, repo=None):
        b = self.w.read_bytes(f, repo)
        if b is None:
            return []
        t = b.decode("utf-8", "replace")
        ls = N.split_lines(t)
        return [l[:-1] if l.endswith("\r") else l for l in ls]

    def write(self, f, lines, repo=None):
        st = self.style(f)
        t = st.eol.join(lines)
        if lines and st.final_nl:
            t += st.eol
        self.w.write_bytes(f, t.encode("utf-8"), repo)

    def choose_files(self):
        p = self.profile
        pool = list(FILENAMES_PLAIN)
        if p["hostile_names"]:
            pool = FILENAMES_HOSTILE + FILENAMES_PLAIN[:1]
        if p.get("extreme_names"):
            pool = [n for n in FILENAMES_EXTREME if p.get("name:" + n, True)] + FILENAMES_HOSTILE[:3]
        self.rng.shuffle(pool)
        self.files = pool[:max(1, p["files"])]
        return self.files

    def pending_initial_files(self, repo=None):
        """Files that carry pending line-number claims (INITIAL of the current HEAD's working log)."""
        repo = repo or self.w.repo
        head = self.w.ogit("rev-parse", "-q", "--verify", "HEAD", cwd=repo).strip() or "initial"
        gd = self.w.ogit("rev-parse", "--absolute-git-dir", cwd=repo).strip()
        common = self.w.ogit("rev-parse", "--git-common-dir", cwd=repo).strip()
        res = set()
        import glob as _glob
        cands = []
        for base in {gd, os.path.join(repo, common) if not os.path.isabs(common) else common}:
            cands.append(os.path.join(base, "ai", "working_logs", head, "INITIAL"))
            # linked worktrees keep their working logs under <common>/ai/worktrees/<name>/working_logs
            cands.extend(_glob.glob(os.path.join(base, "ai", "worktrees", "*", "working_logs", head, "INITIAL")))
        for p in cands:
            try:
                with open(p) as fh:
                    j = json.load(fh)
                res.update(j.get("files", {}).keys())
            except (OSError, ValueError):
                pass
        return res

    # ------------------------------------------------------------------ protocol
    def readonly_cmds(self, repo=None, f=None):
        """Read-only git commands through the proxy (no clock tick: object ids stay comparable)."""
        cmds = [["status"], ["status", "-s"], ["log", "-1", "--oneline"], ["diff"], ["diff", "--cached", "--stat"], ["show", "--stat"],
                ["stash", "list"], ["stash", "show"], ["branch", "-a"], ["rev-parse", "HEAD"], ["ls-files"]]
        if f:
            cmds.append(["blame", "--", f])
        chosen = self.vrng.sample(cmds, self.vrng.choice([1, 2, 3]))
        if self.vrng.random() < 0.6:
            # read-only for the user, but git-ai takes a (pre-commit style) checkpoint around them
            chosen.append(self.vrng.choice([["stash", "list"], ["stash", "show"], ["commit", "--dry-run"], ["stash", "list", "--stat"]]))
        for c in chosen:
            self.w.git(*c, cwd=repo, tick=False)
            self.stats["readonly_cmds"] += 1

    def do_edit(self, author=None, f=None, kinds=None, repo=None, ckpt=None):
        w = self.w
        f = f or self.rng.choice(self.files)
        author = author or self.rng.choice(["human"] + self.sessions)
        lines = self.read(f, repo)
        ck = None
        if self.exempt_ws_committed:
            hl = self.w.ogit("cat-file", "blob", "HEAD:" + f, cwd=repo, raw=True)
            ck = {key(l) for l in N.split_lines(hl.out.decode("utf-8", "replace"))} if hl.rc == 0 else set()
        if author == "human":
            do_ck = ckpt if ckpt is not None else (self.rng.random() < self.profile["human_ckpt_rate"])
            if not do_ck and (not self.profile["human_edit_on_pending_unreported"]) and f in self.pending_initial_files(repo):
                do_ck = True
            if do_ck:
                w.human_ckpt([f], cwd=repo)
            d = self.edit_lines(lines, "human", kinds, ck)
            if d.startswith("indent") and not self.profile.get("reindent_delete_combo", True):
                # finding D13: a re-indent and a deletion of the following line inside one checkpoint interval flips the
                # author; while it is open a person's re-indent is isolated in its own interval by IDE-style checkpoints
                if not do_ck:
                    w.human_ckpt([f], cwd=repo)
                self.write(f, lines, repo)
                w.human_ckpt([f], cwd=repo)
            self.write(f, lines, repo)
            if "extra_human_ckpt" in self.variant and self.vrng.random() < 0.6:
                w.human_ckpt([f], cwd=repo)
                self.stats["variant_extra_human_ckpt"] += 1
                if "repeat" in self.variant and self.vrng.random() < 0.5:
                    w.human_ckpt([f], cwd=repo)
        else:
            before = list(lines)
            self.pre_ai(author, f, repo)
            if "repeat" in self.variant and self.vrng.random() < 0.4:
                self.pre_ai(author, f, repo)
                self.stats["variant_repeat"] += 1
            d = self.edit_lines(lines, author, kinds, ck)
            if not self.style(f).final_nl and before and lines and key(before[-1]) != key(lines[-1]):
                # the file has no final newline: an edit that changes which line is last also changes the line terminator of the old
                # and of the new last line - a whitespace-only change by this session of lines it did not write (finding D24 class)
                for l in (before[-1], lines[-1]):
                    if l in before and l in lines:
                        self.ledger.ws_touch.setdefault(key(l), set()).add(author)
            mid = self.split_point(before, lines, d) if "split" in self.variant else None
            if mid is not None:
                self.write(f, mid, repo)
                self.post_ai(author, f, repo)
                self.stats["variant_split"] += 1
            self.write(f, lines, repo)
            self.post_ai(author, f, repo)
            if "repeat" in self.variant and self.vrng.random() < 0.4:
                self.post_ai(author, f, repo)
                self.stats["variant_repeat"] += 1
        if "readonly" in self.variant and self.vrng.random() < 0.5:
            self.readonly_cmds(repo, f)
        self.log.append(["edit", f, author, d])
        self.ops.append("e:" + ("h" if author == "human" else "a") + ":" + d.split("@")[0])
        self.stats["edits"] += 1
        if author != "human":
            self.stats["ai_edits"] += 1
        return d

    def do_create(self, author=None, repo=None):
        """A brand-new (untracked) file written by a person or by an agent."""
        author = author or self.rng.choice(["human"] + self.sessions)
        self.n += 1
        f = "new%d_%s.txt" % (self.n, author[:2].lower())
        lines = self.new_lines(author, self.rng.choice([2, 3, 5]), [])
        if author == "human":
            self.write(f, lines, repo)
        else:
            self.pre_ai(author, f, repo)
            self.write(f, lines, repo)
            self.post_ai(author, f, repo)
        self.files.append(f)
        self.log.append(["edit", f, author, "create+%d" % len(lines)])
        self.ops.append("e:" + ("h" if author == "human" else "a") + ":create")
        self.stats["edits"] += 1
        if author != "human":
            self.stats["ai_edits"] += 1
        return f

    def pre_ai(self, session, f, repo=None):
        """Checkpoint an agent sends before it edits f (human checkpoint)."""
        self.w.human_ckpt([f], cwd=repo)

    def post_ai(self, session, f, repo=None):
        """Checkpoint an agent sends after it edited f."""
        t = self.tool.get(session, ("tool", "m"))
        self.w.ai_ckpt(session, [f], cwd=repo, messages=self.transcript(session), tool=t[0], model=t[1])

    def transcript(self, session):
        return None

    def split_point(self, before, after, d):
        """Intermediate content for splitting one agent edit into two checkpoints (insertions / replacements of >= 2 lines)."""
        kind = d.split("@")[0]
        if kind not in ("ins", "rep"):
            return None
        try:
            if kind == "ins":
                pos, k = d[4:].split("+"); pos, k = int(pos), int(k); a = b = pos
            else:
                rng_, k = d[4:].split("+"); a, b = rng_.split("-"); a, b, k = int(a), int(b), int(k)
        except ValueError:
            return None
        if k < 2:
            return None
        j = self.vrng.randrange(1, k)
        new = after[a:a + k]
        return before[:a] + new[:j] + before[b:]

    def g(self, *args, repo=None, env=None, input=None):
        p = self.w.git(*args, cwd=repo, env=env, input=input)
        self.log.append(["git"] + list(args) + ["rc=%d" % p.rc])
        self.stats["git_cmds"] += 1
        if p.rc == -999:
            self.inconclusive = "watchdog on git %s" % (args,)
        return p

    def commit_all(self, msg="c", repo=None, extra=()):
        if self.profile.get("hostile_messages"):
            # commit messages whose body lines look like the header lines of a raw commit object (git-ai reads `tree` / `parent` from
            # `cat-file --batch` output); the message travels with the commit through every rewrite
            self.msg_n = getattr(self, "msg_n", 0) + 1
            msg = [msg + "\n\ntree shaking: drop unused helpers\nparent directory is scanned first\n",
                   "tree shaking: " + msg, msg + "\n\nparent 0000000000000000000000000000000000000000\ntree 4b825dc642cb6eb9a060e54bf8d69288fbee4904\n",
                   msg][self.msg_n % 4]
        self.g("add", "-A", repo=repo)
        p = self.g("commit", "-q", "--allow-empty", "-m", msg, *extra, repo=repo)
        self.ops.append("commit")
        return p

    def head(self, repo=None, rev="HEAD"):
        return self.w.ogit("rev-parse", "-q", "--verify", rev, cwd=repo).strip()

    def show_lines(self, commit, path):
        ls = self.nr.file_lines(commit, path)
        if ls is None:
            return None
        return [l[:-1] if l.endswith("\r") else l for l in ls]

    # ------------------------------------------------------------------ observers
    def blame(self, f, repo=None, extra=()):
        ctx = getattr(self, "blame_ctx", None)
        if ctx and repo is None:
            # invocation context (C12): git-ai blame started from a sub-directory with a relative path, or from elsewhere with an absolute one
            base = self.w.repo
            if ctx == "subdir":
                sd = getattr(self.w, "subdir", ".")
                cwd = os.path.join(base, sd)
                arg = os.path.relpath(os.path.join(base, f), cwd)
                if not arg.startswith(".") and self.rng.random() < 0.5:
                    arg = "./" + arg
            else:
                cwd = self.w.root
                arg = os.path.join(base, f)
            p = self.w.ga("blame", "--json", *extra, arg, cwd=cwd)
            self.stats["blame_from_" + ctx] += 1
        else:
            p = self.w.ga("blame", "--json", *extra, ("./" + f) if f.startswith("-") else f, cwd=repo)
        if p.rc != 0:
            return None
        try:
            j = json.loads(p.stdout)
        except ValueError:
            return None
        out = {}
        for rng, h in j.get("lines", {}).items():
            if "-" in rng:
                a, b = rng.split("-"); r = range(int(a), int(b) + 1)
            else:
                r = [int(rng)]
            for i in r:
                out[i] = h
        return out

    def violation(self, kind, **kw):
        v = Violation(kind=kind, **kw)
        self.viol.append(v)
        return v

    # ------------------------------------------------------------------ global monitors (C03 + C05 + no panic)
    def check_notes(self, where, repo=None, nr=None):
        """Every note in refs/notes/ai: one per object, parses, invariants, and no AI claim contradicting the ledger."""
        if nr is None and repo is None:
            self.w.rec.append(dict(k="check", what="notes", where=where))
        nr = nr or self.nr
        mapping = nr.mapping()
        for obj, ents in mapping.items():
            if len(ents) != 1:
                self.violation("C05/two-notes-for-object", obj=obj, entries=ents, where=where)
                continue
            blob, path = ents[0]
            if (obj, blob) in self._validated:
                continue
            self._validated.add((obj, blob))
            self.stats["notes_validated"] += 1
            text = nr.blob(blob)
            if nr.git("cat-file", "-t", obj).strip() != "commit":
                continue
            try:
                note = N.parse_note(text)
            except N.NoteError as e:
                self.violation("C05/unparsable-note", commit=obj, err=str(e), text=text[:300], where=where)
                continue
            inv = N.check_note_invariants(note, obj, nr.tree_paths(obj), lambda p, o=obj: len(nr.file_lines(o, p) or []))
            for rule, detail in inv:
                self.violation("C05/" + rule, commit=obj, detail=detail, where=where)
            slow = obj in self.slow_path_commits()
            dadd = self.diff_added(obj) if (slow and nr is self.nr and self.profile.get("slow_path_strict_notes", True) is False) else None
            for path2, sess in note.files.items():
                ls = self.show_lines(obj, path2) if nr is self.nr else None
                if nr is not self.nr:
                    raw = nr.file_lines(obj, path2)
                    ls = [l[:-1] if l.endswith("\r") else l for l in raw] if raw is not None else None
                if ls is None:
                    continue
                for h, lineset in sess.items():
                    s = self.h2s.get(h, h)
                    for i in lineset:
                        if 1 <= i <= len(ls):
                            if dadd is not None and i not in dadd.get(path2, ()):
                                # finding D16: notes written by the full replay of rebase / cherry-pick list lines their commit
                                # did not add; while it is open only the lines the commit added (what blame consults) are asserted
                                self.stats["slow_path_extra_lines_skipped"] += 1
                                continue
                            self.stats["note_ai_lines_checked"] += 1
                            self._sound(ls[i - 1], s, "note", where, commit=obj, file=path2, line=i)

    def slow_path_commits(self):
        """Commits whose note was written by the full replay of a rebase / cherry-pick (from the H-trace stream)."""
        try:
            size = os.path.getsize(self.w.trace_path)
        except OSError:
            return self._slow_commits
        if size == self._trace_size:
            return self._slow_commits
        self._trace_size = size
        slow_pids = set()
        res = set()
        for t in self.w.trace():
            k = t.get("kind")
            if k in ("slow_path_rebase", "slow_path_cherry_pick"):
                slow_pids.add(t.get("pid"))
            elif k == "notes_add_batch" and t.get("pid") in slow_pids:
                res.update(t.get("commits", []))
        self._slow_commits = res
        return res

    def _sound(self, text, got, via, where, **kw):
        """C03: reported AI(got) only if the ledger says got wrote this content."""
        if key(text) == "":
            return   # blank / whitespace-only lines have no substantive author; nothing is asserted about them
        if self.ledger.is_decoy(text):
            if got not in self.ledger.ever(text):
                self.violation("C03/unsound-" + via, text=text, ledger=sorted(self.ledger.ever(text)), got=got, where=where, decoy=True, **kw)
            return
        exp = self.ledger.expected(text)
        if got != exp:
            if not self.profile.get("ai_ws_touch_strict", True) and got in self.ledger.ws_touch.get(key(text), ()):
                # finding D24: after a stash round trip a line whose whitespace an AI session changed is credited to that session
                self.stats["ws_touch_tolerated"] += 1
                return
            self.violation("C03/unsound-" + via, text=text, ledger=exp, got=got, where=where, **kw)

    def scan_ws_changes(self, tip="HEAD"):
        """Record keys of lines that some commit of `tip`'s history changed in whitespace only."""
        for c in self.w.ogit("rev-list", "--branches", tip).split():
            if c in self._ws_scanned:
                continue
            self._ws_scanned.add(c)
            for f, gadded in self.diff_added(c).items():
                cur, kadded = self.added_keys(c, f)
                for i in gadded - kadded:
                    if 1 <= i <= len(cur):
                        self.ws_keys.add(key(cur[i - 1]))

    def check_blame_tip(self, where, repo=None, complete=True, files=None, rule="C01"):
        """Blame of every file at HEAD (only files whose worktree content equals HEAD)."""
        repo_ = repo or self.w.repo
        if repo is None:
            self.w.rec.append(dict(k="check", what="blame_tip", where=where, complete=complete, files=files, rule=rule))
        head = self.head(repo)
        if complete and self.exempt_ws_committed and repo is None:
            self.scan_ws_changes()
        for f in (files or self.tracked(repo)):
            cur = self.read(f, repo)
            hl = self.show_lines(head, f) if repo is None else None
            if repo is not None:
                raw = self.w.ogit("cat-file", "blob", "%s:%s" % (head, f), cwd=repo, raw=True)
                hl = [l[:-1] if l.endswith("\r") else l for l in N.split_lines(raw.out.decode("utf-8", "replace"))] if raw.rc == 0 else None
            if hl is None or hl != cur:
                continue
            b = self.blame(f, repo)
            if b is None:
                if hl:
                    self.violation(rule + "/blame-failed", file=f, where=where)
                continue
            self.stats["blame_files"] += 1
            for i, l in enumerate(hl, 1):
                got = self.h2s.get(b.get(i), "human" if b.get(i) is None or b.get(i) not in self.h2s else b.get(i))
                self.stats["blame_lines"] += 1
                if got != "human":
                    self._sound(l, got, "blame", where, file=f, line=i)
                if complete and not self.ledger.is_decoy(l) and key(l) not in self.ledger.optional and not (self.exempt_ws_committed and key(l) in self.ws_keys):
                    exp = self.ledger.expected(l)
                    if exp != "human":
                        self.stats["ai_lines_expected"] += 1
                        if got != exp:
                            self.violation(rule + "/lost", file=f, line=i, text=l, ledger=exp, got=got, where=where)
                        else:
                            self.stats["ai_lines_observed"] += 1

    def tracked(self, repo=None):
        out = self.w.ogit("ls-files", "-z", cwd=repo)
        return [p for p in out.split("\0") if p]

    def after_step(self, where):
        """Global monitors run after every step."""
        self.check_notes(where)
        self.stats["steps"] += 1

    # ------------------------------------------------------------------ exactness of one commit's note (C01 / C04)
    def parent_of(self, commit):
        k = ("parent", commit)
        if k not in self.nr._show:
            ps = self.w.ogit("rev-list", "--parents", "-n1", commit).split()[1:]
            self.nr._show[k] = ps[0] if ps else None
        return self.nr._show[k]

    def diff_added(self, commit, parent=None):
        """{path: set(line numbers added)} by an own hunk-counting parser of `git diff -U0` under neutral config."""
        k = ("diff", commit, parent)
        if k in self.nr._show:
            return self.nr._show[k]
        EMPTY = "4b825dc642cb6eb9a060e54bf8d69288fbee4904"
        if parent is None:
            parent = self.parent_of(commit) or EMPTY
        out = self.w.ogit("-c", "diff.algorithm=myers", "-c", "diff.noprefix=false", "-c", "diff.mnemonicPrefix=false", "-c", "diff.renames=false",
                          "-c", "diff.interHunkContext=0", "-c", "diff.context=0", "-c", "diff.indentHeuristic=true", "-c", "diff.relative=false",
                          "-c", "diff.orderFile=/dev/null", "-c", "core.autocrlf=false",
                          "diff", "-U0", "--no-color", "--no-ext-diff", "--no-textconv", "--no-renames", "--src-prefix=a/", "--dst-prefix=b/",
                          "-z" if False else "--no-relative", parent, commit, "--", raw=True).out
        res = parse_unified_added(out)
        self.nr._show[k] = res
        return res

    def added_keys(self, commit, path, parent=None):
        """(lines of path at commit, set of line numbers whose *content key* is new relative to the parent)."""
        cur = self.show_lines(commit, path) or []
        if parent is None:
            parent = self.parent_of(commit)
        par = (self.show_lines(parent, path) or []) if parent else []
        pk = Counter(key(l) for l in par)
        added = set()
        seen = Counter()
        for i, l in enumerate(cur, 1):
            k = key(l)
            seen[k] += 1
            if seen[k] > pk.get(k, 0):
                added.add(i)
        return cur, added

    def check_commit_exact(self, commit, where, rule="C01", parent=None, note=None, mapping=None, complete=True):
        """The note of `commit` lists exactly the unambiguous AI lines it added, under the right session.
        "Added" is git's own answer (diff -U0, neutral config); "not added" needs git's diff AND content keys to agree."""
        self.w.rec.append(dict(k="check", what="commit_exact", commit=commit, where=where, rule=rule, parent=parent, complete=complete))
        if note is None:
            try:
                note = self.nr.note_for(commit, mapping)
            except N.NoteError:
                return  # reported by check_notes
        nfiles = note.files if note else {}
        paths = self.nr.tree_paths(commit)
        dadded = self.diff_added(commit, parent)
        for f in paths:
            listed = nfiles.get(f, {})
            if f not in dadded and not listed:
                continue
            cur, kadded = self.added_keys(commit, f, parent)
            gadded = dadded.get(f, set())
            by_line = {}
            for h, s in listed.items():
                for i in s:
                    by_line.setdefault(i, []).append(h)
            for i, l in enumerate(cur, 1):
                if self.ledger.is_decoy(l):
                    continue
                got = [self.h2s.get(h, h) for h in by_line.get(i, [])]
                exp = self.ledger.expected(l)
                if i in gadded:
                    ws_only = i not in kadded   # git says "added" but the content key already existed in the parent: whitespace-only change
                    if ws_only:
                        self.ws_keys.add(key(l))
                        self.stats["ws_only_changed_lines"] += 1
                    if exp != "human" and complete and key(l) not in self.ledger.optional and not (ws_only and self.exempt_ws_committed):
                        self.stats["ai_lines_expected"] += 1
                        if exp not in got:
                            self.violation(rule + "/missing-from-note", commit=commit, file=f, line=i, text=l, ledger=exp, got=got, where=where)
                        else:
                            self.stats["ai_lines_observed"] += 1
                    if len(got) > 1:
                        self.violation(rule + "/line-listed-twice", commit=commit, file=f, line=i, got=got, where=where)
                elif i not in kadded and got:
                    self.violation(rule + "/lists-line-not-added", commit=commit, file=f, line=i, text=l, got=got, where=where)

    # ------------------------------------------------------------------ housekeeping
    def signature(self):
        return "|".join(self.ops)

    def recording(self):
        """Concrete, generator-independent record of this scenario (actions, checks, ledger)."""
        return dict(world=self.w.init_kwargs, profile=self.profile, sessions=self.sessions, rec=self.w.rec,
                    ledger=dict(author=self.ledger.author, introduced={k: sorted(v) for k, v in self.ledger.introduced.items()},
                                decoys=sorted(self.ledger.decoys), optional=sorted(self.ledger.optional),
                                ws_touch={k: sorted(v) for k, v in self.ledger.ws_touch.items()}),
                    ws_keys=sorted(self.ws_keys), styles={f: [st.eol, st.final_nl] for f, st in self.styles.items()})

    def finish(self):
        r = dict(index=self.index, viol=self.viol, stats=dict(self.stats), sig=self.signature(), log=self.log,
                 inconclusive=self.inconclusive)
        if self.viol:
            r["recording"] = self.recording()
        return r

    def destroy(self):
        self.w.destroy()


HUNK = re.compile(rb"^@@ -(\d+)(?:,(\d+))? \+(\d+)(?:,(\d+))? @@")


def parse_unified_added(out):
    """Own parser of unified diff bytes -> {path: set(new line numbers)}; counts hunk body lines so that
    body lines that look like headers can never be mistaken for headers."""
    res = {}
    lines = out.split(b"\n")
    i = 0
    cur = None
    while i < len(lines):
        l = lines[i]
        if l.startswith(b"diff --git "):
            cur = None
        elif l.startswith(b"+++ "):
            p = l[4:]
            if p == b"/dev/null":
                cur = None
            else:
                if p.startswith(b'"'):
                    p = unquote_c(p.rstrip(b"\t"))
                elif p.endswith(b"\t") and (b" " in p):
                    p = p[:-1]   # git appends a TAB to unquoted names containing spaces
                cur = p[2:].decode("utf-8", "replace") if p.startswith(b"b/") else p.decode("utf-8", "replace")
        elif l.startswith(b"@@ "):
            m = HUNK.match(l)
            if m:
                oc = int(m.group(2)) if m.group(2) is not None else 1
                ns = int(m.group(3)); nc = int(m.group(4)) if m.group(4) is not None else 1
                if cur is not None and nc:
                    res.setdefault(cur, set()).update(range(ns, ns + nc))
                body = oc + nc
                j = i + 1
                while body and j < len(lines):
                    if lines[j][:1] in (b"+", b"-", b" "):
                        body -= 1
                    j += 1
                i = j - 1
        i += 1
    return res


def unquote_c(p):
    """Undo git's C-style path quoting (only reached when core.quotePath=false still quotes: tab, quote, backslash, newline)."""
    assert p.startswith(b'"') and p.endswith(b'"')
    s = p[1:-1]
    out = bytearray()
    i = 0
    esc = {ord("t"): 9, ord("n"): 10, ord('"'): 34, ord("\\"): 92, ord("r"): 13, ord("a"): 7, ord("b"): 8, ord("f"): 12, ord("v"): 11}
    while i < len(s):
        c = s[i]
        if c == 92 and i + 1 < len(s):
            d = s[i + 1]
            if d in esc:
                out.append(esc[d]); i += 2; continue
            if 48 <= d <= 55:
                out.append(int(s[i + 1:i + 4], 8)); i += 4; continue
        out.append(c); i += 1
    return bytes(out)
