"""Credential-shaped tokens that are statistically unremarkable for a uniform source (pre-screened), so that the
design false-negative rate of any entropy detector stays out of the verdict."""
import math
import string

from .bigrams import BIGRAMS

BG = set(BIGRAMS)
ALNUM = string.ascii_letters + string.digits
UPNUM = string.ascii_uppercase + string.digits
HEX = "0123456789abcdef"


def _within(x, n, p, sig=1.0):
    mean = n * p
    sd = math.sqrt(n * p * (1 - p))
    return abs(x - mean) <= sig * sd + 0.5


def _ok_base64ish(tok):
    n = len(tok)
    d = sum(c.isdigit() for c in tok); u = sum(c.isupper() for c in tok); l = sum(c.islower() for c in tok)
    if not (_within(d, n, 10 / 64) and _within(u, n, 26 / 64) and _within(l, n, 26 / 64)):
        return False
    bg = sum(1 for i in range(n - 1) if tok[i:i + 2] in BG)
    if not _within(bg, n, len(BG) / 4096.0):
        return False
    # distinct characters: expected for n draws from 64 symbols
    exp_distinct = 64 * (1 - (1 - 1 / 64) ** n)
    return len(set(tok)) >= exp_distinct - 1.5


def _ok_hex(tok):
    n = len(tok)
    d = sum(c.isdigit() for c in tok)
    exp_distinct = 16 * (1 - (1 - 1 / 16) ** n)
    return _within(d, n, 10 / 16) and len(set(tok)) >= exp_distinct - 1


def _ok_upnum(tok):
    n = len(tok)
    d = sum(c.isdigit() for c in tok); u = sum(c.isupper() for c in tok)
    exp_distinct = 36 * (1 - (1 - 1 / 36) ** n)
    return _within(d, n, 10 / 36) and _within(u, n, 26 / 36) and len(set(tok)) >= exp_distinct - 1


def planted_token(rng, shape=None):
    """Returns (shape, token). Shapes: sk- + 48 alnum, ghp_ + 36 alnum, AKIA + 16 upper/digit, 40 hex, 44-64 base64-ish, github_pat_ (93 characters),
    96-172 base64-ish (longer than the 90 characters the detector's tables are sized for)."""
    shape = shape or rng.choice(["sk", "ghp", "akia", "hex40", "b64", "github_pat", "b64long"])
    for _ in range(100000):
        if shape == "sk":
            tok = "sk-" + "".join(rng.choice(ALNUM) for _ in range(48)); ok = _ok_base64ish(tok)
        elif shape == "ghp":
            tok = "ghp_" + "".join(rng.choice(ALNUM) for _ in range(36)); ok = _ok_base64ish(tok)
        elif shape == "github_pat":
            # GitHub's fine-grained personal access tokens: 93 characters
            tok = "github_pat_" + "".join(rng.choice(ALNUM) for _ in range(22)) + "_" + "".join(rng.choice(ALNUM) for _ in range(59)); ok = _ok_base64ish(tok)
        elif shape == "b64long":
            tok = "".join(rng.choice(ALNUM + "+/") for _ in range(rng.choice([96, 128, 172]))); ok = _ok_base64ish(tok)
        elif shape == "akia":
            tok = "AKIA" + "".join(rng.choice(UPNUM) for _ in range(16)); ok = _ok_upnum(tok)
        elif shape == "hex40":
            tok = "".join(rng.choice(HEX) for _ in range(40)); ok = _ok_hex(tok)
        else:
            tok = "".join(rng.choice(ALNUM + "+/") for _ in range(rng.choice([44, 52, 64]))); ok = _ok_base64ish(tok)
        if ok:
            return shape, tok
    raise RuntimeError("no token passed the pre-screen")
