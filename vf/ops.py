"""History-shaping operations on top of the scenario engine (partial commits, rewrites, conflicts, destructive commands)."""
import hashlib
import json
import os

from .engine import Scenario, key
from . import notes as N


class Hist(Scenario):
    # ------------------------------------------------------------------ state observers
    def gitdir(self, repo=None):
        return self.w.ogit("rev-parse", "--absolute-git-dir", cwd=repo).strip()

    def in_progress(self, repo=None):
        gd = self.gitdir(repo)
        return sorted(x for x in ["MERGE_HEAD", "CHERRY_PICK_HEAD", "REVERT_HEAD", "rebase-merge", "rebase-apply"] if os.path.exists(os.path.join(gd, x)))

    def unmerged(self, repo=None):
        out = self.w.ogit("diff", "--name-only", "--diff-filter=U", "-z", cwd=repo)
        return [p for p in out.split("\0") if p]

    def branches(self, repo=None):
        return self.w.ogit("for-each-ref", "--format=%(refname:short)", "refs/heads", cwd=repo).split()

    def current_branch(self, repo=None):
        return self.w.ogit("symbolic-ref", "-q", "--short", "HEAD", cwd=repo).strip()

    def ncommits(self, rev="HEAD", repo=None):
        try:
            return int(self.w.ogit("rev-list", "--count", rev, cwd=repo).strip() or 0)
        except ValueError:
            return 0

    def notes_tip(self, repo=None):
        return self.w.ogit("rev-parse", "-q", "--verify", "refs/notes/ai", cwd=repo).strip()

    def notes_digest(self, repo=None):
        """Digest of the notes *content* (object -> blob), independent of the notes commit chain."""
        out = self.w.ogit("ls-tree", "-r", "refs/notes/ai", cwd=repo)
        return hashlib.sha1(out.encode()).hexdigest()

    def pending(self, repo=None):
        """Semantic projection of the live working logs: INITIAL + checkpoint entries (no timestamps)."""
        gd = self.gitdir(repo)
        common = self.w.ogit("rev-parse", "--git-common-dir", cwd=repo).strip()
        if not os.path.isabs(common):
            common = os.path.normpath(os.path.join(repo or self.w.repo, common))
        res = {}
        import glob as _glob
        for wl in sorted({os.path.join(gd, "ai", "working_logs"), os.path.join(common, "ai", "working_logs")} |
                         set(_glob.glob(os.path.join(common, "ai", "worktrees", "*", "working_logs")))):
            if not os.path.isdir(wl):
                continue
            for d in sorted(os.listdir(wl)):
                if d.startswith("old-"):
                    continue
                ent = {}
                ip = os.path.join(wl, d, "INITIAL")
                if os.path.exists(ip):
                    try:
                        j = json.load(open(ip))
                        ent["initial"] = {f: sorted((a["start_line"], a["end_line"], a["author_id"]) for a in la) for f, la in j.get("files", {}).items()}
                        ent["initial_prompts"] = sorted(j.get("prompts", {}).keys())
                    except (ValueError, KeyError, TypeError) as e:
                        ent["initial"] = "UNPARSABLE %s" % e
                cp = os.path.join(wl, d, "checkpoints.jsonl")
                if os.path.exists(cp):
                    cps = []
                    for ln in open(cp):
                        if not ln.strip():
                            continue
                        try:
                            c = json.loads(ln)
                            cps.append((c.get("kind"), (c.get("agent_id") or {}).get("id"),
                                        [(e["file"], sorted((a["start_line"], a["end_line"], a["author_id"]) for a in e.get("line_attributions", []))) for e in c.get("entries", [])]))
                        except (ValueError, KeyError, TypeError) as e:
                            cps.append("UNPARSABLE %s" % e)
                    if cps:
                        ent["checkpoints"] = cps
                if ent:
                    res[d] = ent
        return res

    def pending_digest(self, repo=None):
        return hashlib.sha1(json.dumps(self.pending_effective(repo), sort_keys=True, default=str).encode()).hexdigest()

    def pending_effective(self, repo=None):
        """Effective pending attribution: per live working log and file, which *content keys* are claimed by which session
        (latest checkpoint entry of the file read against its own content snapshot, else INITIAL against the work tree),
        restricted to keys still present in the work tree. Recording a person's edit as a checkpoint does not change it."""
        gd = self.gitdir(repo)
        common = self.w.ogit("rev-parse", "--git-common-dir", cwd=repo).strip()
        if not os.path.isabs(common):
            common = os.path.normpath(os.path.join(repo or self.w.repo, common))
        res = {}
        import glob as _glob
        for wl in sorted({os.path.join(gd, "ai", "working_logs"), os.path.join(common, "ai", "working_logs")} |
                         set(_glob.glob(os.path.join(common, "ai", "worktrees", "*", "working_logs")))):
            if not os.path.isdir(wl):
                continue
            for d in sorted(os.listdir(wl)):
                if d.startswith("old-"):
                    continue
                per_file = {}
                ip = os.path.join(wl, d, "INITIAL")
                try:
                    j = json.load(open(ip))
                    for f, la in j.get("files", {}).items():
                        per_file[f] = ("worktree", [(a["start_line"], a["end_line"], a["author_id"]) for a in la])
                except (OSError, ValueError, KeyError, TypeError):
                    pass
                cp = os.path.join(wl, d, "checkpoints.jsonl")
                try:
                    for ln in open(cp):
                        if not ln.strip():
                            continue
                        try:
                            c = json.loads(ln)
                        except ValueError:
                            per_file["<unparsable checkpoint>"] = ("worktree", [])
                            continue
                        for e in c.get("entries", []):
                            per_file[e["file"]] = (e.get("blob_sha"), [(a["start_line"], a["end_line"], a["author_id"]) for a in e.get("line_attributions", [])])
                except OSError:
                    pass
                out = {}
                for f, (src, las) in per_file.items():
                    cur = self.read(f, repo)
                    curkeys = {key(l) for l in cur}
                    if src == "worktree" or src is None:
                        content = cur
                    else:
                        try:
                            content = N.split_lines(open(os.path.join(wl, d, "blobs", src), "rb").read().decode("utf-8", "replace"))
                        except OSError:
                            content = cur
                    claims = {}
                    for a, b, who in las:
                        if who == "human":
                            continue
                        for i in range(a, b + 1):
                            if 1 <= i <= len(content):
                                k = key(content[i - 1])
                                if k and k in curkeys:
                                    claims.setdefault(who, set()).add(k)
                    if claims:
                        out[f] = {w_: sorted(v) for w_, v in claims.items()}
                if out:
                    res[d] = out
        return res

    # ------------------------------------------------------------------ conflict handling
    def resolve_conflicts(self, how=None, repo=None):
        """Resolve every unmerged file keeping existing keys (ours/theirs/both) or writing fresh lines; stage them."""
        how = how or self.rng.choice(["ours", "theirs", "both", "fresh"])
        for f in self.unmerged(repo):
            b = self.w.read_bytes(f, repo)
            if b is None:
                self.w.git("rm", "-q", "--", f, cwd=repo, plain=True, tick=False)
                continue
            out = []
            side = None
            author = self.rng.choice(["human"] + self.sessions) if how == "fresh" else None
            fresh_done = False
            for l in N.split_lines(b.decode("utf-8", "replace")):
                if l.startswith("<<<<<<< "):
                    side = "ours"; fresh_done = False; continue
                if l.startswith("||||||| "):
                    side = "base"; continue
                if l.startswith("=======") and side in ("ours", "base"):
                    side = "theirs"; continue
                if l.startswith(">>>>>>> ") and side == "theirs":
                    side = None; continue
                if side is None:
                    out.append(l)
                elif how == "both" and side in ("ours", "theirs"):
                    out.append(l)
                elif how == side:
                    out.append(l)
                elif how == "fresh" and not fresh_done and side == "ours":
                    fresh_done = True
                    out.append(None)
            if how == "fresh":
                if author != "human":
                    self.w.human_ckpt([f], cwd=repo)
                n_before = self.n
                out = [self.fresh(author, hostile=False) if l is None else l for l in out]
                if author != "human":
                    # written during the operation, not "attributed before" it: C02 does not require these to stay AI
                    for l in out:
                        if self.ledger.author.get(key(l)) == author and ("k%04d" % (n_before + 1)) <= l[l.find("k"):l.find("k") + 5]:
                            pass
                    for i in range(n_before + 1, self.n + 1):
                        tok = "w%dk%04d_" % (self.index, i)
                        for l in out:
                            if tok in l:
                                self.ledger.optional.add(key(l))
                out = [l[:-1] if l.endswith("\r") else l for l in out]
                self.write(f, out, repo)
                if author != "human":
                    self.post_ai(author, f, repo)
            else:
                out = [l[:-1] if l.endswith("\r") else l for l in out]
                self.write(f, out, repo)
            self.g("add", "--", f, repo=repo)
        self.log.append(["resolve", how])
        self.ops.append("resolve:" + how)
        return how

    def finish_in_progress(self, cmd, decide=None, repo=None, max_rounds=12):
        """After `git <cmd>` stopped: repeatedly resolve+continue, or skip, or abort. Returns final outcome string."""
        for _ in range(max_rounds):
            st = self.in_progress(repo)
            if not st:
                return "done"
            what = decide or self.rng.choice(["continue", "continue", "continue", "abort", "skip"])
            if what == "skip" and cmd not in ("rebase", "cherry-pick"):
                what = "continue"
            if what == "abort":
                self.g(cmd, "--abort", repo=repo)
                self.ops.append(cmd + ":abort")
                return "aborted"
            if what == "skip":
                p = self.g(cmd, "--skip", repo=repo)
                self.ops.append(cmd + ":skip")
                continue
            self.resolve_conflicts(repo=repo)
            if cmd == "merge":
                p = self.g("commit", "-q", "--no-edit", repo=repo)
            else:
                p = self.g("-c", "core.editor=true", cmd, "--continue", repo=repo)
            self.ops.append(cmd + ":continue")
        if self.in_progress(repo):
            self.g(cmd, "--abort", repo=repo)
            self.inconclusive = "could not finish %s" % cmd
        return "done"

    def report_human_edits(self):
        """finding D29: operations that snapshot pending attribution by line number (reset, stash, switch -m, amend) do not first
        record a person's unreported edits; while it is open those edits are reported IDE-style before such an operation."""
        if self.profile.get("unreported_human_edit_before_rewrite", True):
            return
        changed = [l[3:] for l in self.w.ogit("status", "--porcelain", "-z", "--no-renames").split("\0") if l]
        changed = [f for f in changed if self.w.read_bytes(f) is not None and not f.endswith("/")]
        if changed:
            self.w.human_ckpt(changed)

    # ------------------------------------------------------------------ commits
    def op_partial_commit(self):
        """Commit a subset of the changed files."""
        changed = [l[3:] for l in self.w.ogit("status", "--porcelain", "-z", "--no-renames").split("\0") if l]
        if not changed:
            return self.commit_all("empty")
        k = self.rng.randrange(1, len(changed) + 1)
        chosen = self.rng.sample(changed, k)
        for f in chosen:
            self.g("add", "--", f)
        if self.profile.get("unstaged_replacement_hunks", True):
            self.g("commit", "-q", "--allow-empty", "-m", "partial")
        else:
            # finding D82 (see op_destructive / mv): commit exactly the chosen paths, not whatever else happens to be staged
            others = [f for f in changed if f not in chosen]
            if not self.profile.get("reset_path_dash_name", True):
                others = [f for f in others if not f.startswith("-")]      # finding D56: `git reset -- -name` (used below to unstage)
            left_staged = []
            if others and self.rng.random() < 0.5:
                # other files are staged as a whole (index == work tree, so no unstaged hunk inside them) and left out by the
                # by-path commit: after it the index still differs from the new commit
                left_staged = self.rng.sample(others, self.rng.randrange(1, len(others) + 1))
                for f in left_staged:
                    self.g("add", "--", f)
            self.g("commit", "-q", "--allow-empty", "-m", "partial", "--", *chosen)
            if left_staged:
                # (unstaged again right away: staged content that later diverges from the work tree is the D82 situation)
                self.g("reset", "-q", "--", *left_staged)
                self.ops.append("commit:by-path-with-others-staged")
        self.ops.append("commit:files")

    def stage_hunk_subset(self, f):
        """Build an index version of f that contains HEAD's lines plus a random subset of the new lines (like add -p)."""
        w = self
        head = self.head()
        hl = self.show_lines(head, f) if head else None
        cur = self.read(f)
        if hl is None:
            hl = []
        hk = set(key(l) for l in hl)
        newk = [l for l in cur if key(l) not in hk and not self.ledger.is_decoy(l)]
        if len(newk) < 2:
            return False
        if not self.profile.get("hunk_commit_with_deletions", True):
            # finding D26: staging a subset of hunks of a file whose pending change also deletes / replaces lines can lose a
            # carried-over AI line; while it is open hunk-wise staging is generated for pure insertions only
            ck = set(key(l) for l in cur)
            if any(k not in ck for k in hk):
                return False
        chosen = set(key(l) for l in self.rng.sample(newk, self.rng.randrange(1, len(newk))))
        # staged = current content minus the unchosen new lines (deletions are all staged)
        staged = [l for l in cur if key(l) in hk or key(l) in chosen or self.ledger.is_decoy(l)]
        st = self.style(f)
        # like `add -p`: every staged line keeps its own terminator; only the work tree's last line may lack one
        last_is_last = bool(staged) and bool(cur) and staged[-1] is cur[-1]
        text = st.eol.join(staged) + (st.eol if staged and (st.final_nl or not last_is_last) else "")
        p = self.w.ogit("hash-object", "-w", "--stdin", input=text.encode("utf-8"), raw=True)
        blob = p.stdout.strip()
        self.w.ogit("update-index", "--add", "--cacheinfo", "100644,%s,%s" % (blob, f), check=True)
        self.log.append(["stage-hunks", f, len(chosen), len(newk)])
        return True

    def op_hunk_commit(self):
        cands = [f for f in self.files if self.w.read_bytes(f) is not None]
        self.rng.shuffle(cands)
        staged = False
        for f in cands[:2]:
            staged = self.stage_hunk_subset(f) or staged
        if not staged:
            return self.op_partial_commit()
        self.g("commit", "-q", "--allow-empty", "-m", "hunks")
        self.ops.append("commit:hunks")

    def op_commit_index_then_reworded(self):
        """The index and the work tree differ IN PLACE: changes are staged (whole files or a hunk subset), then a person rewords, in the
        work tree only, a line the index adds (same line count, not restaged); the commit is made from the index."""
        rng = self.rng
        cands = [f for f in self.files if self.w.read_bytes(f) is not None]
        rng.shuffle(cands)
        for f in cands:
            head = self.head()
            hl = (self.show_lines(head, f) if head else None) or []
            hk = set(key(l) for l in hl)
            # finding D82: inside an unstaged hunk that REPLACES lines the commit adds, work-tree lines are paired with committed lines by
            # position (a staged line reworded next to left-out lines merges into one such hunk). While it is open the file is staged as
            # a whole, so that the rewording is the only difference between index and work tree (a pure 1:1 hunk).
            if rng.random() < 0.5 and self.profile.get("unstaged_replacement_hunks", True):
                if not self.stage_hunk_subset(f):
                    self.g("add", "--", f)
            else:
                self.g("add", "--", f)
            idx = self.w.ogit("cat-file", "blob", ":" + f, raw=True)
            if idx.rc != 0:
                self.w.git("reset", "-q", "--", f, plain=True, tick=False)
                continue
            il = [l[:-1] if l.endswith("\r") else l for l in N.split_lines(idx.out.decode("utf-8", "replace"))]
            cur = self.read(f)
            own_only = not self.profile.get("intraline_cross_author", True)
            pos = [i for i, l in enumerate(cur) if key(l) and key(l) not in hk and l in il and not self.ledger.is_decoy(l)
                   and (not own_only or self.ledger.expected(l) == "human")]
            if not pos:
                # nothing to reword here: take the file out of the index again (a stale staged version would be committed by a later
                # plain `git commit` while the work tree has moved on - finding D82's shape)
                self.w.git("reset", "-q", "--", f, plain=True, tick=False)
                continue
            i = rng.choice(pos[:2] if rng.random() < 0.6 else pos)      # mostly a line near the top: staged lines below it must not shift
            if f in self.pending_initial_files() and not self.profile["human_edit_on_pending_unreported"]:
                self.w.human_ckpt([f])
            self.n += 1
            toks = cur[i].split(" ")
            toks[-1] = "rw%dk%04d" % (self.index, self.n)
            cur[i] = " ".join(toks)
            self.ledger.record(cur[i], "human")
            self.write(f, cur)
            self.log.append(["edit", f, "human", "reword-in-worktree@%d (staged version differs)" % i])
            self.stats["edits"] += 1
            self.g("commit", "-q", "-m", "index, then reworded in the work tree")
            self.ops.append("commit:index-then-reworded")
            return True
        return self.op_partial_commit()

    def op_commit_index_then_deleted(self):
        """The index and the work tree differ by a pure deletion: a file is staged as a whole, then a person deletes, in the work tree
        only, a line that HEAD already has (mostly one directly next to the lines the index adds; not restaged); the commit is made
        from the index (the repaired finding D75 is the case `deleted above`; `directly below` is the boundary of the same rule)."""
        rng = self.rng
        cands = [f for f in self.files if self.w.read_bytes(f) is not None]
        rng.shuffle(cands)
        for f in cands:
            head = self.head()
            hl = (self.show_lines(head, f) if head else None) or []
            hk = set(key(l) for l in hl)
            cur = self.read(f)
            new = [i for i, l in enumerate(cur) if key(l) and key(l) not in hk]
            old = [i for i, l in enumerate(cur) if key(l) in hk and not self.ledger.is_decoy(l) and self.ledger.expected(l) == "human"]
            if not new or len(old) < 2 or not self.style(f).final_nl:
                continue
            near = [i for i in old if (i - 1) in new or (i + 1) in new]
            i = rng.choice(near) if near and rng.random() < 0.7 else rng.choice(old)
            if i == len(cur) - 1:
                continue
            self.g("add", "--", f)
            if f in self.pending_initial_files() and not self.profile["human_edit_on_pending_unreported"]:
                self.w.human_ckpt([f])
            del cur[i]
            self.write(f, cur)
            self.log.append(["edit", f, "human", "delete-in-worktree@%d (staged version keeps the line)" % i])
            self.stats["edits"] += 1
            self.g("commit", "-q", "-m", "index, then a line deleted in the work tree")
            self.ops.append("commit:index-then-deleted")
            return True
        return self.op_partial_commit()

    def op_commit_paths(self):
        """git commit -- <paths> / commit -a variants."""
        r = self.rng.random()
        if r < 0.5:
            self.g("commit", "-q", "-a", "--allow-empty", "-m", "dash-a")
            self.ops.append("commit:-a")
        else:
            f = self.rng.choice(self.files)
            if self.w.read_bytes(f) is None or f not in self.tracked():
                return self.commit_all("paths-fallback")
            self.g("commit", "-q", "-m", "paths", "--", f)
            self.ops.append("commit:paths")

    def op_amend(self):
        self.report_human_edits()
        noop = self.rng.random() < 0.15 and self.ncommits() >= 1
        if noop and not self.profile.get("unstaged_replacement_hunks", True):
            # finding D82: the amend re-maps work-tree attributions onto the commit; unstaged hunks that REPLACE committed lines are its
            # open case, so the no-op amend is made only over pending work that merely adds lines
            ns = self.w.ogit("diff", "--numstat", "--no-renames").split("\n")
            if any(l.split("\t")[1:2] not in ([], ["0"]) for l in ns if l.strip()):
                noop = False
        if noop:
            # an amend that changes nothing, within the same second: it reproduces the same commit id while work may be pending
            # (repaired finding D90)
            ct = self.w.ogit("log", "-1", "--format=%ct").strip()
            p = self.w.git("commit", "-q", "--amend", "--no-edit", tick=False, env={"GIT_COMMITTER_DATE": "@%s +0000" % ct})
            self.log.append(["git", "commit", "-q", "--amend", "--no-edit", "(same second)", "rc=%d" % p.rc])
            self.stats["git_cmds"] += 1
            self.ops.append("amend:noop-same-id")
            return
        self.g("add", "-A")
        self.g("commit", "-q", "--amend", "--allow-empty", "-m", "amended")
        self.ops.append("amend")

    # ------------------------------------------------------------------ rewrites
    def new_branch_name(self, pre="br"):
        self.branch_n += 1
        return "%s%d" % (pre, self.branch_n)

    def op_rebase(self, kind=None, feat_commits=None, upstream_where=None):
        """Branch off, make 1-3 feature commits (AI+human), advance the base with upstream changes, rebase."""
        rng = self.rng
        pf = self.profile
        kinds = [k for k in ["plain", "plain", "onto", "interactive"] if pf.get("rebase_" + k, True)]
        if os.environ.get("VERIF_REBASE_KIND"):
            kinds = [os.environ["VERIF_REBASE_KIND"]]
        kind = kind or rng.choice(kinds or ["plain"])
        base_branch = self.current_branch() or "main"
        feat = self.new_branch_name("feat")
        self.g("checkout", "-q", "-b", feat)
        nfc = feat_commits or rng.choice([1, 2, 2, 3])
        disjoint = not pf.get("rebase_conflicts", True)
        todo_kind = None
        if kind == "interactive":
            todos = [k for k in ["reorder", "squash", "fixup", "drop", "edit", "reword"] if pf.get("todo_" + k, True)]
            # finding D33 (hooks mode): a squash / fixup chain keeps only the attribution of the chain's LAST original commit. While it
            # is open, chains are still generated in the sub-class that works in both modes: only the last commit of the chain carries
            # agent lines, the commits folded into it before are a person's.
            if not pf.get("todo_squash", True):
                todos.append("squash-tail")
            if not pf.get("todo_fixup", True):
                todos.append("fixup-tail")
            if os.environ.get("VERIF_TODO_KIND"):
                todos = [os.environ["VERIF_TODO_KIND"]]
            todo_kind = rng.choice(todos or ["reword"])
            if todo_kind.endswith("-tail"):
                nfc = rng.choice([2, 2, 3])
        order = list(self.files); rng.shuffle(order)
        wheres0 = [os.environ["VERIF_UPSTREAM"]] if os.environ.get("VERIF_UPSTREAM") else ([pf["upstream_where"]] if pf.get("upstream_where") else ["same", "same", "other", "new"])
        upstream_where = upstream_where or rng.choice(wheres0)
        # finding D20: the full replay mis-places attributions for general same-file rebases; while it is open, same-file rebases are
        # generated in the sub-class it handles (agent insertions on the feature side, a person's insertions upstream, plain `rebase`,
        # a conflict aborts the rebase) and everything else keeps upstream changes in other files
        simple = (upstream_where == "same" and not pf.get("rebase_upstream_same_file", True)) or bool(os.environ.get("VERIF_REBASE_SIMPLE"))
        if simple:
            kind = "plain"
            disjoint = False
        if disjoint:
            nfc = min(nfc, len(self.files))
        one_session = rng.choice(self.sessions)
        for i in range(nfc):
            for _ in range(rng.choice([1, 1, 2])):
                if simple:
                    # sub-class of same-file rebases that the full replay handles: insertions by ONE agent session on the feature side
                    # (adjacent insertions of different sessions get each other's credit, part of finding D20)
                    self.do_edit(author=one_session, kinds=["ins"])
                elif todo_kind in ("squash-tail", "fixup-tail") and not (todo_kind == "fixup-tail" and i >= 2):
                    tail = (nfc - 1) if todo_kind == "squash-tail" else 1
                    self.do_edit(author=rng.choice(self.sessions) if i == tail else "human", f=order[i] if disjoint else None)
                else:
                    self.do_edit(f=order[i] if disjoint else None)
            self.commit_all("feat%d" % i)
        self.g("checkout", "-q", base_branch)
        # upstream change: above / below / interleaved / other file
        wheres = ["same", "same", "other", "new"]
        if os.environ.get("VERIF_UPSTREAM"):
            wheres = [os.environ["VERIF_UPSTREAM"]]
        where = upstream_where or rng.choice(wheres)
        for _ in range(rng.choice([1, 1, 2])):
            if where == "new":
                nf = "up%d.txt" % self.n
                self.write(nf, [self.fresh("human", hostile=False) for _ in range(3)])
                self.log.append(["edit", nf, "human", "create"])
            else:
                if where == "other":
                    touched = set(self.w.ogit("diff", "--name-only", "-z", "%s...%s" % (base_branch, feat)).split("\0"))
                    cands = [x for x in self.files if x not in touched]
                    if not cands:
                        nf = "up%d.txt" % self.n
                        self.write(nf, [self.fresh("human", hostile=False) for _ in range(3)])
                        self.log.append(["edit", nf, "human", "create"])
                        self.commit_all("upstream")
                        continue
                    f = rng.choice(cands)
                else:
                    f = rng.choice(self.files)
                if simple:
                    self.do_edit(author="human", f=f, kinds=["ins"])
                else:
                    self.do_edit(author=rng.choice(["human", "human"] + self.sessions), f=f, kinds=["ins", "ins", "del", "rep"])
            self.commit_all("upstream")
        onto_branch = None
        if kind == "onto" and nfc >= 2:
            # rebase only the last feature commit(s) onto base
            self.g("checkout", "-q", feat)
            p = self.g("rebase", "--onto", base_branch, feat + "~1", feat)
        elif kind == "interactive" and nfc >= 2:
            self.g("checkout", "-q", feat)
            seq = self.make_seq_editor(todo_kind.replace("-tail", ""))
            p = self.g("rebase", "-i", base_branch, env={"GIT_SEQUENCE_EDITOR": seq})
            self.ops.append("todo:" + todo_kind)
            self.log.append(["todo", todo_kind])
            if p.rc == 0 and todo_kind == "edit" and self.in_progress():
                pass
        else:
            self.g("checkout", "-q", feat)
            if pf.get("rebase_pending_untracked") and rng.random() < 0.6:
                # a session goes on working while its commits are rebased: a new, still untracked file it has written and reported is
                # pending in the working log of the old HEAD (untracked files do not stop a rebase)
                self.do_create(author=rng.choice(self.sessions))
                self.ops.append("rebase:with-pending-untracked")
            p = self.g("rebase", base_branch)
        self.ops.append("rebase:" + kind)
        outcome = "done"
        if self.in_progress():
            # stopped: conflict or `edit`
            if not self.unmerged() and "rebase-merge" in self.in_progress():
                # stopped for edit: optionally amend with an AI edit, then continue
                if rng.random() < 0.5:
                    self.do_edit()
                    self.g("add", "-A"); self.g("commit", "-q", "--amend", "--no-edit")
                self.g("-c", "core.editor=true", "rebase", "--continue")
            outcome = self.finish_in_progress("rebase", decide="abort" if simple else None)
        self.log.append(["rebase-outcome", outcome])
        if outcome == "done":
            self.g("checkout", "-q", base_branch)
            self.g("merge", "-q", "--ff-only", feat)
        else:
            self.g("checkout", "-q", "-f", base_branch)
        return outcome

    def op_rebase_delete_recreate(self):
        """A rebased series that creates an AI file, deletes it and re-creates it, while upstream changed another AI-touched file
        of the series (so notes cannot simply be copied)."""
        rng = self.rng
        base_branch = self.current_branch() or "main"
        feat = self.new_branch_name("dr")
        who = rng.choice(self.sessions)
        self.g("checkout", "-q", "-b", feat)
        f = rng.choice([x for x in self.files if x in self.tracked()] or self.files)
        nf = self.do_create(author=who)
        self.do_edit(author=who, f=f, kinds=["ins"])
        self.commit_all("dr1 create+edit")
        self.g("rm", "-q", "--", nf); self.commit_all("dr2 delete")
        if rng.random() < 0.5:
            self.do_edit(author=who, f=f, kinds=["ins"]); self.commit_all("dr2b")
        self.pre_ai(who, nf); self.write(nf, self.new_lines(who, rng.choice([2, 3]), [])); self.post_ai(who, nf)
        self.commit_all("dr3 recreate")
        self.g("checkout", "-q", base_branch)
        self.do_edit(author="human", f=f, kinds=["ins"]); self.commit_all("upstream")
        self.g("checkout", "-q", feat)
        p = self.g("rebase", base_branch)
        self.ops.append("rebase:delete-recreate")
        outcome = "done"
        if self.in_progress():
            outcome = self.finish_in_progress("rebase", decide="abort")
        if outcome == "done":
            self.g("checkout", "-q", base_branch); self.g("merge", "-q", "--ff-only", feat)
        else:
            self.g("checkout", "-q", "-f", base_branch)
        return outcome

    def make_seq_editor(self, kind):
        """A GIT_SEQUENCE_EDITOR shell command that rewrites the todo list deterministically."""
        path = os.path.join(self.w.root, "seqed-%d.sh" % self.n)
        body = {
            "reorder": "awk '/^pick/{a[n++]=$0;next}{r[m++]=$0}END{for(i=n-1;i>=0;i--)print a[i];for(i=0;i<m;i++)print r[i]}' \"$1\" > \"$1.new\" && mv \"$1.new\" \"$1\"",
            "squash": "awk 'BEGIN{c=0}/^pick/{c++; if(c>1){sub(/^pick/,\"squash\")}}{print}' \"$1\" > \"$1.new\" && mv \"$1.new\" \"$1\"",
            "fixup": "awk 'BEGIN{c=0}/^pick/{c++; if(c==2){sub(/^pick/,\"fixup\")}}{print}' \"$1\" > \"$1.new\" && mv \"$1.new\" \"$1\"",
            "drop": "awk 'BEGIN{c=0}/^pick/{c++; if(c==1){sub(/^pick/,\"drop\")}}{print}' \"$1\" > \"$1.new\" && mv \"$1.new\" \"$1\"",
            "edit": "awk 'BEGIN{c=0}/^pick/{c++; if(c==1){sub(/^pick/,\"edit\")}}{print}' \"$1\" > \"$1.new\" && mv \"$1.new\" \"$1\"",
            "reword": "awk 'BEGIN{c=0}/^pick/{c++; if(c==1){sub(/^pick/,\"reword\")}}{print}' \"$1\" > \"$1.new\" && mv \"$1.new\" \"$1\"",
        }[kind]
        with open(path, "w") as f:
            f.write("#!/bin/sh\n" + body + "\n")
        os.chmod(path, 0o755)
        return path

    def op_cherry_pick(self, kind=None):
        rng = self.rng
        pf = self.profile
        kinds = ["one", "one", "range"] + (["no-commit"] if pf.get("cherry_pick_no_commit", True) else [])
        if os.environ.get("VERIF_CHERRY_KIND"):
            kinds = [os.environ["VERIF_CHERRY_KIND"]]
        kind = kind or rng.choice(kinds)
        base_branch = self.current_branch() or "main"
        src = self.new_branch_name("cp")
        self.g("checkout", "-q", "-b", src)
        n = 1 if kind in ("one", "no-commit") else rng.choice([2, 3])
        for i in range(n):
            self.do_edit()
            if rng.random() < 0.4:
                self.do_edit()
            self.commit_all("cpsrc%d" % i)
        self.g("checkout", "-q", base_branch)
        if rng.random() < 0.7:
            f = None
            if not pf.get("rebase_upstream_same_file", True):
                touched = set(self.w.ogit("diff", "--name-only", "-z", "%s...%s" % (base_branch, src)).split("\0"))
                cands = [x for x in self.files if x not in touched]
                if cands:
                    f = rng.choice(cands)
                else:
                    f = "up%d.txt" % self.n
                    self.write(f, [self.fresh("human", hostile=False) for _ in range(2)])
            self.do_edit(author="human", f=f, kinds=["ins", "ins", "del"])
            self.commit_all("upstream-cp")
        if kind == "one":
            p = self.g("cherry-pick", src)
        elif kind == "range":
            p = self.g("cherry-pick", "%s~%d..%s" % (src, n, src))
        else:
            p = self.g("cherry-pick", "-n", src)
        self.ops.append("cherry-pick:" + kind)
        outcome = "done"
        if kind == "no-commit":
            if self.unmerged():
                self.resolve_conflicts()
            self.g("commit", "-q", "--allow-empty", "-m", "picked -n")
        elif self.in_progress() or self.unmerged():
            # finding D20 family: a pick that stops (conflict / empty) and is then skipped or hand-resolved leaves mis-placed notes;
            # while it is open a stopped cherry-pick is aborted
            outcome = self.finish_in_progress("cherry-pick", decide=None if pf.get("rebase_upstream_same_file", True) else "abort")
        self.log.append(["cherry-pick-outcome", outcome])
        return outcome

    def op_cherry_conflict_abandoned_commit(self):
        """A cherry-pick stops on a conflict; the user resolves it and starts `git commit`, which is abandoned (editor fails);
        `cherry-pick --abort`; then ordinary AI work is committed on the same base. Nothing of the aborted pick may leak."""
        rng = self.rng
        base_branch = self.current_branch() or "main"
        src = self.new_branch_name("cx")
        tr = [x for x in self.files if x in self.tracked()]
        if not tr:
            return
        f = rng.choice(tr)
        lines = self.read(f)
        if not lines:
            return
        who = rng.choice(self.sessions)
        self.g("checkout", "-q", "-b", src)
        l2 = list(lines); self.pre_ai(who, f); l2[0] = self.fresh(who, hostile=False); self.write(f, l2); self.post_ai(who, f)
        self.commit_all("cx src")
        self.g("checkout", "-q", base_branch)
        l3 = list(lines); l3[0] = self.fresh("human", hostile=False); self.write(f, l3); self.commit_all("cx upstream")
        p = self.g("cherry-pick", src)
        self.ops.append("cherry-pick:conflict-abandon")
        if "CHERRY_PICK_HEAD" in self.in_progress():
            self.resolve_conflicts(how=rng.choice(["ours", "theirs"]))
            self.g("commit", env={"GIT_EDITOR": "false"})          # abandoned: the editor fails
            if "CHERRY_PICK_HEAD" in self.in_progress():
                self.g("cherry-pick", "--abort")
            else:
                return
        # ordinary work afterwards, by another session in other files
        others = [x for x in tr if x != f] or tr
        for _ in range(rng.choice([1, 2])):
            self.do_edit(author=rng.choice(self.sessions), f=rng.choice(others), kinds=["ins"])
        self.commit_all("after abandoned pick")

    def op_stash_during_stopped_cherry_pick(self):
        """A cherry-pick stops on a conflict (a person's line on both sides); the person resolves it by hand and stages the file; an
        agent then adds lines to the same file; the half-done pick is put aside with `git stash`; an unrelated commit moves HEAD;
        `git stash pop`, add, commit."""
        rng = self.rng
        tr = [x for x in self.files if x in self.tracked() and self.read(x)]
        if len(tr) < 2:
            return "skipped"
        base_branch = self.current_branch() or "main"
        src = self.new_branch_name("sp")
        f = rng.choice(tr)
        g = rng.choice([x for x in tr if x != f])
        lines = self.read(f)
        self.g("checkout", "-q", "-b", src)
        l2 = list(lines); l2[0] = self.fresh("human", hostile=False); self.write(f, l2); self.commit_all("sp src: a person changes line 1")
        self.g("checkout", "-q", base_branch)
        l3 = list(lines); l3[0] = self.fresh("human", hostile=False); self.write(f, l3); self.commit_all("sp upstream: a person changes line 1 too")
        self.g("cherry-pick", src)
        self.ops.append("cherry-pick:stash-while-stopped")
        if "CHERRY_PICK_HEAD" not in self.in_progress():
            return "no-conflict"
        l4 = list(lines); l4[0] = self.fresh("human", hostile=False)
        self.write(f, l4)
        self.g("add", "--", f)
        who = rng.choice(self.sessions)
        self.do_edit(author=who, f=f, kinds=["ins"])
        self.g("stash")
        self.do_edit(author="human", f=g, kinds=["ins"])
        self.g("commit", "-q", "-a", "-m", "unrelated commit while the pick is put aside")
        self.g("stash", "pop")
        if self.unmerged():
            self.resolve_conflicts(how="theirs")
        self.g("add", "-A")
        self.g("commit", "-q", "-m", "the put-aside work")
        if self.in_progress():
            self.g("cherry-pick", "--abort")
        return "done"

    def op_cherry_pick_concluded_by_commit(self):
        """`git cherry-pick C1 C2` stops on a conflict in a file only people touched; the person resolves it and concludes the pick
        with a plain `git commit` (so the first rewritten commit gets its note from the ordinary post-commit path), then
        `git cherry-pick --continue` picks the rest and the cherry-pick hooks remap the notes of the whole sequence."""
        rng = self.rng
        tr = [x for x in self.files if x in self.tracked() and self.read(x)]
        if len(tr) < 2:
            return "skipped"
        base_branch = self.current_branch() or "main"
        src = self.new_branch_name("cc")
        hf = rng.choice(tr)
        others = [x for x in tr if x != hf]
        hl = self.read(hf)
        self.g("checkout", "-q", "-b", src)
        l2 = list(hl); l2[0] = self.fresh("human", hostile=False); self.write(hf, l2)
        self.do_edit(author=rng.choice(self.sessions), f=rng.choice(others), kinds=["ins"])
        self.commit_all("cc1: AI edit + a person's change of the first line of another file")
        self.do_edit(author=rng.choice(self.sessions), f=rng.choice(others), kinds=["ins"])
        self.commit_all("cc2: AI edit")
        self.g("checkout", "-q", base_branch)
        l3 = list(hl); l3[0] = self.fresh("human", hostile=False); self.write(hf, l3)
        self.commit_all("upstream changes the same first line")
        self.g("cherry-pick", src + "~1", src)
        self.ops.append("cherry-pick:conclude-by-commit")
        if "CHERRY_PICK_HEAD" not in self.in_progress():
            return "no-conflict"
        self.resolve_conflicts(how=rng.choice(["ours", "theirs"]))
        self.g("commit", "-q", "--no-edit")
        seq_dir = os.path.join(self.gitdir(), "sequencer")
        if self.in_progress() or os.path.isdir(seq_dir):
            self.g("-c", "core.editor=true", "cherry-pick", "--continue")
        if self.in_progress() or os.path.isdir(seq_dir):
            self.g("cherry-pick", "--abort")
            self.inconclusive = "could not finish the cherry-pick sequence"
        return "done"

    def op_cherry_pick_refused_command_while_stopped(self):
        """`git cherry-pick C1 C2` stops on a conflict in a file only people touched; while it is stopped the user types another
        `git cherry-pick <commit>` (git refuses: a cherry-pick is already in progress - a failing operation, which must leave notes
        and pending attribution exactly as they were), then resolves and runs `git cherry-pick --continue`."""
        rng = self.rng
        tr = [x for x in self.files if x in self.tracked() and self.read(x)]
        if len(tr) < 2:
            return "skipped"
        base_branch = self.current_branch() or "main"
        other = self.head()
        src = self.new_branch_name("cr")
        hf = rng.choice(tr)
        others = [x for x in tr if x != hf]
        hl = self.read(hf)
        self.g("checkout", "-q", "-b", src)
        n = rng.choice([1, 2, 2])
        l2 = list(hl); l2[0] = self.fresh("human", hostile=False); self.write(hf, l2)
        self.do_edit(author=rng.choice(self.sessions), f=rng.choice(others), kinds=["ins"])
        self.commit_all("cr1: AI edit + a person's change of the first line of another file")
        if n == 2:
            self.do_edit(author=rng.choice(self.sessions), f=rng.choice(others), kinds=["ins"])
            self.commit_all("cr2: AI edit")
        # an unrelated commit with agent lines, which the refused command names
        self.g("checkout", "-q", "-b", self.new_branch_name("cz"), base_branch)
        self.do_edit(author=rng.choice(self.sessions), f=rng.choice(others), kinds=["ins"])
        self.commit_all("cz: unrelated AI commit")
        unrelated = self.head()
        self.g("checkout", "-q", base_branch)
        l3 = list(hl); l3[0] = self.fresh("human", hostile=False); self.write(hf, l3)
        self.commit_all("upstream changes the same first line")
        if n == 2:
            self.g("cherry-pick", src + "~1", src)
        else:
            self.g("cherry-pick", src)
        self.ops.append("cherry-pick:refused-command-while-stopped:%d" % n)
        if "CHERRY_PICK_HEAD" not in self.in_progress():
            return "no-conflict"
        before = (self.notes_digest(), self.pending_digest())
        p = self.g("cherry-pick", unrelated)
        if p.rc == 0:
            self.inconclusive = "git accepted a second cherry-pick while one was stopped"
            return "odd"
        after = (self.notes_digest(), self.pending_digest())
        self.stats["noop_ops_compared"] += 1
        if before[0] != after[0]:
            self.violation("C02/notes-changed-by-noop", op="refused cherry-pick while another is stopped")
        if before[1] != after[1]:
            self.violation("C02/pending-changed-by-noop", op="refused cherry-pick while another is stopped", pending=self.pending_effective())
        self.resolve_conflicts(how=rng.choice(["ours", "theirs"]))
        self.g("-c", "core.editor=true", "cherry-pick", "--continue")
        seq_dir = os.path.join(self.gitdir(), "sequencer")
        if self.in_progress() or os.path.isdir(seq_dir):
            self.g("cherry-pick", "--abort")
            self.inconclusive = "could not finish the cherry-pick sequence"
        return "done"

    def op_squash_merge(self, continue_session=False):
        rng = self.rng
        base_branch = self.current_branch() or "main"
        br = self.new_branch_name("sq")
        self.g("checkout", "-q", "-b", br)
        for i in range(rng.choice([1, 2, 3])):
            self.do_edit()
            self.commit_all("sq%d" % i)
        self.g("checkout", "-q", base_branch)
        if rng.random() < 0.5:
            f = None
            if not self.profile.get("squash_conflicts", True):
                touched = set(self.w.ogit("diff", "--name-only", "-z", "%s...%s" % (base_branch, br)).split("\0"))
                cands = [x for x in self.files if x not in touched]
                if cands:
                    f = rng.choice(cands)
                else:
                    f = "up%d.txt" % self.n
                    self.write(f, [self.fresh("human", hostile=False) for _ in range(2)])
            self.do_edit(author="human", f=f, kinds=["ins", "del"])
            self.commit_all("upstream-sq")
        pending = False
        if rng.random() < 0.4:
            # agent work that the squash does not touch is still uncommitted while the squash runs (fixed finding D84)
            touched = set(self.w.ogit("diff", "--name-only", "-z", "%s...%s" % (base_branch, br)).split("\0"))
            cands = [x for x in self.files if x not in touched and os.path.exists(os.path.join(self.w.repo, x))]
            if cands:
                self.do_edit(author=rng.choice(self.sessions), f=rng.choice(cands), kinds=["ins"])
                pending = True
        p = self.g("merge", "--squash", br)
        self.ops.append("merge:squash" + ("+pending" if pending else ""))
        if self.unmerged():
            self.resolve_conflicts()
        if continue_session and not self.unmerged():
            # a session whose work is being squashed goes on editing before the squash commit is made
            self.do_edit(author=rng.choice(self.sessions), kinds=["ins"])
            self.g("add", "-A")
        if pending and rng.random() < 0.5:
            self.g("add", "-A")
        self.g("commit", "-q", "--allow-empty", "-m", "squashed")
        if pending:
            self.commit_all("pending work after the squash")

    def ensure_origin(self):
        """A local bare `origin` for the main repository (server side of the CI rewrites)."""
        origin = os.path.join(self.w.root, "origin.git")
        if not os.path.isdir(origin):
            self.w.git("init", "-q", "--bare", origin, plain=True, tick=False)
            self.w.git("remote", "add", "origin", origin, plain=True, tick=False)
        return origin

    def op_pull(self, kind=None):
        """The remote branch moves on (commits made in another clone) while this clone has uncommitted agent work (and, for
        `dup`, a local commit that the remote also contains as an identical patch); `git pull` in one of its forms brings it in."""
        rng = self.rng
        kind = kind or rng.choice(["rebase-autostash", "rebase-autostash-dup", "rebase-autostash-dup", "ff", "rebase-clean"])
        base = self.current_branch() or "main"
        origin = self.ensure_origin()
        self.commit_all("before pull")
        self.w.git("push", "-q", "origin", "+refs/heads/%s:refs/heads/%s" % (base, base), plain=True, tick=False)
        other = os.path.join(self.w.root, "other-%d" % self.n)
        self.w.git("clone", "-q", "-b", base, origin, other, plain=True, tick=False, cwd=self.w.root)
        dup_sha = None
        if kind == "rebase-autostash-dup":
            # a local commit that upstream will contain too (as an identical patch, after the upstream-only commit)
            # finding D65: in hooks mode the agent lines of such a commit are lost (upstream's copy has no note and only the wrapper
            # maps the dropped local commit onto it); while it is open the duplicated commit is a person's
            who = rng.choice(self.sessions) if self.profile.get("pull_dup_commit_ai", True) else "human"
            self.do_edit(author=who, kinds=["ins"])
            self.commit_all("local commit that upstream also has")
            dup_sha = self.head()
            self.w.git("push", "-q", "origin", "+%s:refs/heads/dup-src" % dup_sha, plain=True, tick=False)
        nf = "remote%d.txt" % self.n
        self.write(nf, [self.fresh("human", hostile=False) for _ in range(2)], repo=other)
        self.w.git("add", "-A", plain=True, cwd=other, tick=False)
        self.w.git("commit", "-q", "-m", "upstream-only commit", plain=True, cwd=other)
        if dup_sha:
            self.w.git("fetch", "-q", "origin", "dup-src", plain=True, cwd=other, tick=False)
            self.w.git("cherry-pick", dup_sha, plain=True, cwd=other)
        self.w.git("push", "-q", "origin", base, plain=True, cwd=other, tick=False)
        if kind != "rebase-clean":
            self.do_edit(author=rng.choice(self.sessions), kinds=["ins"])      # uncommitted agent work carried across the pull
        if kind == "ff":
            args = ["pull", "-q", "--ff-only", "--autostash", "origin", base]
        elif kind == "rebase-clean":
            args = ["pull", "-q", "--rebase", "origin", base]
        else:
            args = ["pull", "-q", "--rebase", "--autostash", "origin", base]
        p = self.g(*args)
        self.ops.append("pull:" + kind)
        if self.in_progress() or self.unmerged():
            self.finish_in_progress("rebase", decide="abort")
        self.commit_all("after pull")
        return kind

    def op_ci_rewrite(self, kind=None):
        """Server-side squash merge / rebase merge of a pushed feature branch, made by plain git (git-ai never sees it), followed by
        the CI rewrite: `git-ai ci local merge ...` or `git-ai squash-authorship <base> <new> <old>`."""
        rng = self.rng
        kind = kind or rng.choice(["ci-squash", "ci-squash", "ci-rebase", "squash-authorship"])
        base_branch = self.current_branch() or "main"
        self.ensure_origin()
        feat = self.new_branch_name("pr")
        self.g("checkout", "-q", "-b", feat)
        nfc = rng.choice([1, 2, 2, 3])
        order = list(self.files); rng.shuffle(order)
        for i in range(nfc):
            for _ in range(rng.choice([1, 1, 2])):
                self.do_edit(f=order[i % len(order)] if not self.profile.get("rebase_conflicts", True) else None)
            self.commit_all("pr%d" % i)
        head_sha = self.head()
        self.g("checkout", "-q", base_branch)
        if rng.random() < 0.6:
            # the base moves on while the pull request is open: in a file the PR does not touch (a same-file change is finding D20's shape)
            touched = set(self.w.ogit("diff", "--name-only", "-z", "%s...%s" % (base_branch, feat)).split("\0"))
            cands = [x for x in self.files if x not in touched]
            if cands and self.profile.get("rebase_upstream_same_file", True) is False:
                f = rng.choice(cands)
            elif self.profile.get("rebase_upstream_same_file", True):
                f = rng.choice(self.files)
            else:
                f = "up%d.txt" % self.n
                self.write(f, [self.fresh("human", hostile=False) for _ in range(2)])
            self.do_edit(author="human", f=f, kinds=["ins", "ins", "del"])
            self.commit_all("upstream-ci")
        base_sha = self.head()
        self.w.git("push", "-q", "origin", "+refs/heads/*:refs/heads/*", "+refs/notes/ai:refs/notes/ai", plain=True, tick=False)
        # the server merges the pull request with plain git
        if kind == "ci-rebase":
            tmp = self.new_branch_name("srv")
            self.w.git("checkout", "-q", "-b", tmp, feat, plain=True)
            p = self.w.git("rebase", base_branch, plain=True)
            if p.rc != 0 or self.in_progress():
                self.w.git("rebase", "--abort", plain=True, tick=False)
                self.w.git("checkout", "-q", "-f", base_branch, plain=True, tick=False)
                self.ops.append("ci:conflict")
                return "conflict"
            self.w.git("checkout", "-q", base_branch, plain=True, tick=False)
            self.w.git("merge", "-q", "--ff-only", tmp, plain=True, tick=False)
        else:
            p = self.w.git("merge", "--squash", feat, plain=True)
            if self.unmerged():
                self.w.git("reset", "-q", "--hard", plain=True, tick=False)
                self.ops.append("ci:conflict")
                return "conflict"
            self.w.git("commit", "-q", "--allow-empty", "-m", "squashed on the server", plain=True)
        merge_sha = self.head()
        self.w.git("push", "-q", "origin", base_branch, plain=True, tick=False)
        self.log.append(["server-merge", kind, "head=" + head_sha[:8], "merge=" + merge_sha[:8]])
        if kind == "squash-authorship":
            p = self.w.ga("squash-authorship", base_branch, merge_sha, head_sha)
        else:
            p = self.w.ga("ci", "local", "merge", "--merge-commit-sha", merge_sha, "--base-ref", base_branch, "--head-ref", feat,
                          "--head-sha", head_sha, "--base-sha", base_sha)
        self.w.rec.append(dict(k="ga", step=self.w.step, args=self.w._rel(p.argv[1:]), cwd=None, env=None, input=None))
        self.log.append(["ci-rewrite", kind, "rc=%d" % p.rc, p.stdout[-200:]])
        if b"panicked at" in p.err:
            self.violation("panic", where="ci rewrite", stderr=p.stderr[-400:])
        if p.rc != 0:
            self.inconclusive = "ci rewrite exited %d: %s" % (p.rc, p.stderr[-200:])
        self.ops.append("ci:" + kind + ":%d" % nfc)
        self.stats["ci_rewrites"] += 1
        return "done"

    def op_merge(self, kind=None):
        rng = self.rng
        kind = kind or rng.choice(["no-ff", "ff", "conflict"])
        base_branch = self.current_branch() or "main"
        br = self.new_branch_name("mg")
        self.g("checkout", "-q", "-b", br)
        for i in range(rng.choice([1, 2])):
            self.do_edit()
            self.commit_all("mg%d" % i)
        self.g("checkout", "-q", base_branch)
        if kind != "ff":
            self.do_edit(kinds=["ins", "rep"] if kind == "conflict" else ["ins"])
            self.commit_all("upstream-mg")
        p = self.g("merge", "-q", "--no-edit", *(["--no-ff"] if kind == "no-ff" else []), br)
        self.ops.append("merge:" + kind)
        if self.in_progress() or self.unmerged():
            return self.finish_in_progress("merge")
        return "done"

    def begin_undoable(self):
        """Called before the edits of commits that a later soft / mixed reset will un-do. Finding D58: when the un-done commits (or
        the pending work) delete or replace lines below which an earlier, kept commit has AI lines, the reconstruction after the
        reset credits a person's lines to that earlier session; while it is open such commits only insert lines."""
        if not self.profile.get("reset_over_removed_lines", True):
            self.force_kinds = ["ins"]

    def removes_lines(self, *revs):
        out = self.w.ogit("diff", "--numstat", "--no-renames", *revs)
        for ln in out.splitlines():
            parts = ln.split("\t")
            if len(parts) >= 2 and parts[1] not in ("0", "-"):
                return True
        return False

    def op_reset(self, mode=None, recommit=True):
        if self.ncommits() < 2:
            self.force_kinds = None
            return
        mode = mode or self.rng.choice(["--soft", "--mixed", "--hard"])
        self.report_human_edits()
        n = 1 if self.ncommits() < 3 else self.rng.choice([1, 1, 2])
        if mode != "--hard" and not self.profile.get("reset_over_removed_lines", True):
            # finding D58 (see begin_undoable): only un-do ranges, and carry pending work, that do not remove lines
            if n == 2 and self.removes_lines("HEAD~2", "HEAD"):
                n = 1
            if self.removes_lines("HEAD~%d" % n):
                mode = "--hard"
                self.stats["reset_turned_hard_D58"] += 1
        self.force_kinds = None
        self.g("reset", "-q", mode, "HEAD~%d" % n)
        self.ops.append("reset:" + mode)

    def agent_deletion_pending(self):
        """finding D99: a stash round trip turns the zero-length mark of an agent's delete-only edit into a claim on the next line;
        while it is open (flag off) no stash is made over pending work that contains such an edit."""
        if self.profile.get("stash_over_agent_deletion", True):
            return False
        for ent in reversed(self.log):
            if ent[:2] == ["git", "commit"] or (ent[0] == "git" and len(ent) > 1 and ent[1] in ("reset", "checkout", "switch")):
                break
            if ent[0] == "edit" and ent[2] != "human" and str(ent[3]).startswith("del"):
                return True
        return False

    def op_stash(self, between=None, how=None):
        rng = self.rng
        args = rng.choice([["stash"], ["stash", "push", "-q", "-u"], ["stash", "push", "-q"]])
        if not self.profile.get("stash_with_untracked_initial_pending", True):
            # finding D70: `git stash` while an agent-created, still untracked file has INITIAL-only pending claims drops the prompt
            # records of those claims (the file itself is not stashed); while it is open no stash is made in that state
            unt = {l[3:] for l in self.w.ogit("status", "--porcelain", "-z").split("\0") if l.startswith("??")}
            if unt & set(self.pending_initial_files()):
                self.ops.append("stash:skipped-D70")
                return
        if self.agent_deletion_pending():
            self.ops.append("stash:skipped-D99")
            return
        self.report_human_edits()
        self.g(*args)
        self.ops.append("stash:push")
        if not self.w.ogit("stash", "list").strip():
            return
        between = rng.random() < 0.5 if between is None else between
        if between and rng.random() < 0.25:
            # instead of a person's commit: an agent edits two other files and only one of them is committed (pending INITIAL claims
            # exist when the stash comes back)
            touched = set(self.w.ogit("diff", "--name-only", "-z", "stash@{0}^1", "stash@{0}").split("\0"))
            cands = [x for x in self.files if x not in touched and x in self.tracked()]
            who = rng.choice(self.sessions)
            nf = self.do_create(author=who)
            if cands:
                self.do_edit(author=who, f=rng.choice(cands), kinds=["ins"])
                self.g("add", "--", self.log[-1][1])
            self.g("commit", "-q", "--allow-empty", "-m", "between-stash: part of an agent's work")
            self.ops.append("stash:between-partial")
        elif between:
            f = None
            if not self.profile.get("stash_between_same_file", True):
                touched = set(self.w.ogit("diff", "--name-only", "-z", "stash@{0}^1", "stash@{0}").split("\0"))
                touched |= set(self.w.ogit("ls-tree", "-r", "--name-only", "-z", "stash@{0}^3").split("\0")) if self.w.ogit("rev-parse", "-q", "--verify", "stash@{0}^3").strip() else set()
                cands = [x for x in self.files if x not in touched]
                if cands:
                    f = rng.choice(cands)
                else:
                    f = "btw%d.txt" % self.n
                    self.write(f, [self.fresh("human", hostile=False) for _ in range(2)])
            self.do_edit(author="human", f=f, kinds=["ins", "del"])
            self.commit_all("between-stash")
        how = how or rng.choice(["pop", "pop", "apply"])
        # the entry is named in one of git's spellings: none (the newest), stash@{0}, or the bare index (repaired finding D89)
        p = self.g("stash", how, "-q", *rng.choice([[], [], ["stash@{0}"], ["0"]]))
        self.ops.append("stash:" + how)
        if self.unmerged():
            self.resolve_conflicts(how=self.rng.choice(["ours", "theirs", "both"]))
            self.g("reset", "-q")
            if how == "pop":
                self.g("stash", "drop", "-q")

    def op_switch_carry(self):
        """Switch branches carrying uncommitted work (plain or -m)."""
        rng = self.rng
        cur = self.current_branch() or "main"
        br = self.new_branch_name("sw")
        self.report_human_edits()
        cmd = rng.choice([["checkout", "-q"], ["switch", "-q"], ["checkout", "-q", "-m"], ["switch", "-q", "-m"]])
        untracked = [l for l in self.w.ogit("status", "--porcelain", "-z").split("\0") if l.startswith("??")]
        # finding D69: `checkout -m` / `switch -m` that really moves HEAD loses the attribution of files an agent created and that are
        # still untracked; while it is open HEAD only moves when no untracked file is being carried
        if "-m" in cmd and self.ncommits() > 1 and rng.random() < 0.6 and (self.profile.get("switch_m_untracked_new_file", True) or not untracked):
            self.g("branch", br, "HEAD~1")      # HEAD really moves: the carried work is merged onto another commit
        else:
            self.g("branch", br)
        self.g(*cmd, br)
        if self.unmerged():
            if self.profile.get("rebase_conflicts", True):
                self.resolve_conflicts(how=rng.choice(["ours", "theirs", "both"]))
                self.g("reset", "-q")
            else:
                # conflicted carry-overs belong to the D20 / D23 family (lines of the commit that was left come back as local changes
                # without attribution); while those are open the conflicted work is discarded
                self.g("reset", "-q", "--hard")
                self.ops.append("switch:conflict-discarded")
        self.ops.append("switch:" + "-".join(cmd))
        if rng.random() < 0.3 and not self.unmerged():
            # commit there, then carry new agent work back to the branch we came from with a plain switch
            self.commit_all("on " + br)
            self.do_edit(author=rng.choice(self.sessions), kinds=["ins"])
            p = self.g("switch", "-q", cur)
            self.ops.append("switch:back")

    # ------------------------------------------------------------------ destructive commands (C03)
    def op_destructive(self):
        rng = self.rng
        f = rng.choice(self.files)
        ch = rng.choice(["reset-hard", "checkout-path", "restore", "restore-staged", "checkout-f", "stash-drop", "clean", "rm", "mv",
                         "branch-D", "reset-path", "restore-source", "stash-clear", "switch-discard", "checkout-f-away", "switch-discard-away",
                         "checkout-f-away", "reset-hard-back", "checkout-nodd", "checkout-dot", "restore-dot"])
        if ch in ("stash-drop", "stash-clear") and not self.profile.get("stash_discard_with_initial_pending", True) and self.pending_initial_files():
            ch = "reset-hard"   # finding D36: stash push + drop/clear while INITIAL-only claims are pending leaves them behind
        if ch in ("restore", "restore-staged", "restore-source") and not self.profile.get("restore_with_initial_pending", True) and f in self.pending_initial_files():
            ch = "checkout-path"   # finding D55: `git restore` is not handled at all; the handled spelling of the same discard is `git checkout -- <path>`
        if ch == "reset-path" and f.startswith("-") and not self.profile.get("reset_path_dash_name", True):
            ch = "reset-hard"      # finding D56
        if ch == "reset-hard":
            self.g("reset", "-q", "--hard", rng.choice(["HEAD", "HEAD", "HEAD~1"]) if self.ncommits() > 1 else "HEAD")
        elif ch == "checkout-path":
            self.g("checkout", "--", f)
        elif ch == "restore":
            self.g("restore", "--", f)
        elif ch == "checkout-nodd":
            if f in self.tracked() and not f.startswith("-"):
                self.g("checkout", f)
        elif ch == "checkout-dot":
            self.g("checkout", ".")
        elif ch == "restore-dot":
            self.g("restore", ".")
        elif ch == "restore-staged":
            self.g("add", "-A"); self.g("restore", "--staged", "--", f); self.g("restore", "--", f)
        elif ch == "restore-source":
            if self.ncommits() > 1:
                self.g("restore", "--source", "HEAD~1", "--", f)
        elif ch == "checkout-f":
            self.g("checkout", "-q", "-f", self.current_branch() or "HEAD")
        elif ch == "switch-discard":
            self.g("switch", "-q", "--discard-changes", self.current_branch() or "main")
        elif ch in ("checkout-f-away", "switch-discard-away"):
            # discard the work by force-moving HEAD to another commit, then come back with a plain checkout
            cur = self.current_branch()
            if cur and self.ncommits() > 1:
                away = self.new_branch_name("away")
                self.w.git("branch", away, "HEAD~1", plain=True, tick=False)
                if ch == "checkout-f-away":
                    self.g("checkout", "-q", "-f", away)
                else:
                    self.g("switch", "-q", "--discard-changes", away)
                self.g("checkout", "-q", cur)
        elif ch == "reset-hard-back":
            # hard reset to an older commit and back to the tip: all uncommitted work is gone
            if self.ncommits() > 1:
                tip = self.head()
                self.g("reset", "-q", "--hard", "HEAD~1")
                self.g("reset", "-q", "--hard", tip)
        elif ch == "stash-drop":
            self.g("stash", "push", "-q", "-u"); self.g("stash", "drop", "-q")
        elif ch == "stash-clear":
            self.g("stash", "push", "-q"); self.g("stash", "clear")
        elif ch == "clean":
            self.g("clean", "-q", "-fd")
        elif ch == "rm":
            if len(self.tracked()) > 1 and f in self.tracked():
                pending = f in self.pending_initial_files()
                self.g("rm", "-q", "-f", "--", f)
                if pending and not self.profile["human_edit_on_pending_unreported"]:
                    self.w.human_ckpt([f])   # finding D3': a person's unreported change of a file that carries INITIAL claims
                self.write(f, [self.fresh("human", hostile=False) for _ in range(rng.choice([1, 3, 6]))])
        elif ch == "mv":
            if f in self.tracked():
                nf = "mv%d_%s" % (self.n, os.path.basename(f))
                self.g("mv", "--", f, nf)
                if nf not in self.files and self.w.read_bytes(nf) is not None:
                    self.files[self.files.index(f)] = nf
                    if f in self.styles:
                        self.styles[nf] = self.styles[f]
                    if not self.profile.get("unstaged_replacement_hunks", True):
                        # finding D82: a STAGED rename makes the next commit add the whole file; an agent's later,
                        # unstaged replacement of some of its lines then shifts that commit's note. While it is open the rename is
                        # committed on its own.
                        self.g("commit", "-q", "-m", "rename only")
        elif ch == "branch-D":
            br = self.new_branch_name("del")
            self.g("checkout", "-q", "-b", br)
            self.do_edit(); self.commit_all("doomed")
            self.g("checkout", "-q", "-f", "main")
            self.g("branch", "-D", br)
        elif ch == "reset-path":
            self.g("add", "-A"); self.g("reset", "-q", "--", f)
        self.ops.append("destroy:" + ch)
        return ch

    def human_overwrite_same_lines(self, f=None):
        """A person types fresh lines at the top / at the line numbers discarded AI work may have occupied."""
        f = f or self.rng.choice(self.files)
        lines = self.read(f)
        k = self.rng.choice([1, 2, 3, 5])
        pos = self.rng.choice([0, 0, min(len(lines), 1), min(len(lines), 2), len(lines)])
        if (not self.profile["human_edit_on_pending_unreported"]) and f in self.pending_initial_files():
            self.w.human_ckpt([f])
        lines[pos:pos] = [self.fresh("human", hostile=False) for _ in range(k)]
        self.write(f, lines)
        self.log.append(["edit", f, "human", "overwrite@%d+%d" % (pos, k)])
        self.ops.append("e:h:over")
