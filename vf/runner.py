"""Process-pool runner, verdicts, evidence, replays and known findings."""
import fcntl
import json
import multiprocessing as mp
import os
import shutil
import subprocess
import sys
import time
import traceback
from collections import Counter

from . import world as W

VERIF = W.VERIF
EVIDENCE = os.environ.get("VERIF_EVIDENCE_DIR") or os.path.join(VERIF, "evidence")
REPLAYS = os.environ.get("VERIF_REPLAYS_DIR") or os.path.join(VERIF, "replays")
KNOWN = os.path.join(VERIF, "known_findings.json")
REPO = os.environ.get("VERIF_REPO", "/repo")


def log(*a):
    print(*a, file=sys.stderr, flush=True)


# --------------------------------------------------------------------------- build
def build(need_harness=False, need_shim=True):
    """Rebuild git-ai (feature verif) from /repo's working tree; returns None or an error string."""
    os.makedirs(W.BUILD, exist_ok=True)
    lock = open(os.path.join(W.BUILD, "build.lock"), "w")
    fcntl.flock(lock, fcntl.LOCK_EX)
    try:
        env = dict(os.environ, CARGO_TARGET_DIR=os.path.join(W.BUILD, "target"), CARGO_NET_OFFLINE="true")
        t = time.time()
        p = subprocess.run(["cargo", "build", "--offline", "--bin", "git-ai", "--features", "verif"], cwd=REPO, env=env,
                           stdout=subprocess.PIPE, stderr=subprocess.STDOUT)
        if p.returncode != 0:
            return "cargo build of /repo failed:\n" + p.stdout.decode("utf-8", "replace")[-3000:]
        log("[build] git-ai (verif) ok in %.1fs" % (time.time() - t))
        if need_shim:
            err = build_shim()
            if err:
                return err
        if need_harness:
            t = time.time()
            hsrc = os.path.join(VERIF, "harness")
            hdir = os.path.join(W.BUILD, "harness")          # generated crate dir (Cargo.toml points at the repository under test)
            os.makedirs(hdir, exist_ok=True)
            toml = open(os.path.join(hsrc, "Cargo.toml.in")).read().replace("@REPO@", REPO)
            if not os.path.exists(os.path.join(hdir, "Cargo.toml")) or open(os.path.join(hdir, "Cargo.toml")).read() != toml:
                open(os.path.join(hdir, "Cargo.toml"), "w").write(toml)
            if os.path.islink(os.path.join(hdir, "src")) or not os.path.exists(os.path.join(hdir, "src")):
                if os.path.islink(os.path.join(hdir, "src")):
                    os.remove(os.path.join(hdir, "src"))
                os.symlink(os.path.join(hsrc, "src"), os.path.join(hdir, "src"))
            shutil.copyfile(os.path.join(REPO, "Cargo.lock"), os.path.join(hdir, "Cargo.lock"))
            env["CARGO_TARGET_DIR"] = os.path.join(W.BUILD, "harness-target")
            p = subprocess.run(["cargo", "build", "--offline"], cwd=hdir, env=env, stdout=subprocess.PIPE, stderr=subprocess.STDOUT)
            if p.returncode != 0:
                return "cargo build of harness failed:\n" + p.stdout.decode("utf-8", "replace")[-3000:]
            log("[build] harness ok in %.1fs" % (time.time() - t))
        return None
    finally:
        fcntl.flock(lock, fcntl.LOCK_UN)
        lock.close()


def build_shim():
    src = os.path.join(VERIF, "tools", "gitshim.c")
    out = W.SHIM
    os.makedirs(os.path.dirname(out), exist_ok=True)
    if os.path.exists(out) and os.path.getmtime(out) >= os.path.getmtime(src):
        return None
    p = subprocess.run(["cc", "-O2", "-Wall", "-o", out + ".tmp", src], stdout=subprocess.PIPE, stderr=subprocess.STDOUT)
    if p.returncode != 0:
        return "cc gitshim failed: " + p.stdout.decode()
    os.replace(out + ".tmp", out)
    return None


PROBE = os.path.join(W.BUILD, "harness-target", "debug", "probe")


def run_probe(mode, seed, n, extra=(), timeout=600):
    """Run the in-process harness; returns the parsed JSON object or raises."""
    p = subprocess.run([PROBE, mode, str(seed), str(n)] + list(extra), stdout=subprocess.PIPE, stderr=subprocess.PIPE, timeout=timeout)
    if p.returncode != 0:
        raise RuntimeError("probe %s exited %d: %s" % (mode, p.returncode, p.stderr.decode("utf-8", "replace")[-600:]))
    return json.loads(p.stdout.decode("utf-8", "replace").strip().split("\n")[-1])


# --------------------------------------------------------------------------- known findings
def load_known(prop):
    try:
        with open(KNOWN) as f:
            j = json.load(f)
    except FileNotFoundError:
        return []
    return [e for e in j.get("findings", []) if e.get("property") == prop]


def trigger_off_flags(prop):
    flags = set()
    try:
        with open(KNOWN) as f:
            allf = json.load(f).get("findings", [])
    except FileNotFoundError:
        allf = []
    for e in allf:
        if e.get("status") == "open" and (e.get("property") == prop or prop in e.get("affects", [])):
            flags.update(e.get("trigger_off", []))
    # build-out experiments only (never set by a registered command): re-enable shapes to see whether a finding still reproduces at random
    flags -= set(x for x in os.environ.get("VERIF_FLAGS_ON", "").split(",") if x)
    return flags


# --------------------------------------------------------------------------- pool
def _worker(args):
    fn, case = args
    t = time.time()
    try:
        r = fn(case)
    except W.Panic as e:
        r = dict(viol=[dict(kind="PANIC", err=str(e)[-800:])], stats={}, sig="panic", nontrivial=True)
    except Exception as e:  # harness error => inconclusive, never a violation
        r = dict(viol=[], stats={}, sig="harness-error", nontrivial=False, inconclusive="harness error: %s\n%s" % (repr(e)[:300], traceback.format_exc()[-1200:]))
    r["case"] = case
    r["wall"] = time.time() - t
    return r


def run_pool(fn, cases, budget_s, procs=None, min_cases=1):
    """Run fn(case) over cases in a process pool until done or the wall-clock budget is used up.
    Returns list of results (only completed cases)."""
    procs = procs or int(os.environ.get("VERIF_PROCS", "16"))
    results = []
    t0 = time.time()
    ctx = mp.get_context("fork")
    pool = ctx.Pool(procs)
    try:
        it = pool.imap_unordered(_worker, ((fn, c) for c in cases), chunksize=1)
        while True:
            remaining = budget_s - (time.time() - t0)
            if remaining <= 0 and len(results) >= min_cases:
                break
            try:
                r = it.next(timeout=max(1.0, min(remaining, 30)) if remaining > 0 else 30)
            except mp.TimeoutError:
                if time.time() - t0 > budget_s + 180:
                    break
                continue
            except StopIteration:
                break
            results.append(r)
    finally:
        pool.terminate()
        pool.join()
    return results


# --------------------------------------------------------------------------- verdicts / evidence
class Report:
    def __init__(self, prop, tier, seed, level, rule, assumptions=None):
        self.prop, self.tier, self.seed, self.level, self.rule = prop, tier, seed, level, rule
        self.assumptions = assumptions or []
        self.t0 = time.time()
        self.evaluations = 0
        self.sigs = set()
        self.samples = []
        self.counters = Counter()
        self.violations = []      # (kind, replay path)
        self.known_printed = []
        self.inconclusive = []
        self.extra = {}
        self.viol_kinds = Counter()
        if os.path.isdir(REPLAYS) and not os.environ.get("VERIF_REPLAY_MODE"):
            for fn in os.listdir(REPLAYS):
                if fn.startswith(prop + "-"):
                    try:
                        os.remove(os.path.join(REPLAYS, fn))
                    except OSError:
                        pass

    def add_results(self, results, label="explore", max_replays=8):
        for r in results:
            self.evaluations += 1
            for k, v in (r.get("stats") or {}).items():
                if isinstance(v, (int, float)):
                    self.counters[k] += v
            if r.get("inconclusive"):
                self.inconclusive.append(dict(case=r.get("case"), why=str(r["inconclusive"])[:400]))
                continue
            if r.get("nontrivial", True) and r.get("sig"):
                self.sigs.add(r["sig"])
            if r.get("sample") is not None and len(self.samples) < 3:
                self.samples.append(r["sample"])
            if r.get("viol"):
                kinds = sorted({v["kind"] for v in r["viol"]})
                for k in kinds:
                    self.viol_kinds[k] += 1
                if len(self.violations) < max_replays:
                    path = self.write_replay(r, label)
                    self.violations.append((kinds[0], path))

    def write_replay(self, r, label):
        os.makedirs(REPLAYS, exist_ok=True)
        case = r.get("case")
        name = "%s-%s-%s-%d.json" % (self.prop, label, self.seed, len(self.violations))
        path = os.path.join(REPLAYS, name)
        with open(path, "w") as f:
            json.dump(dict(property=self.prop, seed=self.seed, tier=self.tier, case=case, violations=r["viol"][:10],
                           log=r.get("log"), sig=r.get("sig"), recording=r.get("recording")), f, indent=1, ensure_ascii=False, default=str)
        return path

    def known_finding(self, text):
        line = "KNOWN-FINDING: property=%s %s" % (self.prop, text)
        print(line, flush=True)
        self.known_printed.append(text)

    def direct_violation(self, kind, payload):
        os.makedirs(REPLAYS, exist_ok=True)
        path = os.path.join(REPLAYS, "%s-%s-%s-%d.json" % (self.prop, "direct", self.seed, len(self.violations)))
        with open(path, "w") as f:
            json.dump(dict(property=self.prop, seed=self.seed, tier=self.tier, kind=kind, payload=payload), f, indent=1, ensure_ascii=False, default=str)
        self.violations.append((kind, path))
        self.viol_kinds[kind] += 1

    def finish(self, min_nontrivial=2):
        wall = time.time() - self.t0
        cov = dict(evaluations=self.evaluations, distinct_nontrivial=len(self.sigs), rule=self.rule,
                   samples=self.samples or ["(no sample recorded)"], counters=dict(self.counters),
                   inconclusive=len(self.inconclusive), inconclusive_examples=self.inconclusive[:3],
                   known_findings_reported=self.known_printed, violation_kinds=dict(self.viol_kinds))
        cov.update(self.extra)
        ev = dict(property_id=self.prop, tier=self.tier, seed=self.seed, level=self.level, coverage=cov,
                  assumptions=self.assumptions, wall_s=round(wall, 2), violations=len(self.violations))
        os.makedirs(EVIDENCE, exist_ok=True)
        tmp = os.path.join(EVIDENCE, self.prop + ".json.tmp")
        with open(tmp, "w") as f:
            json.dump(ev, f, indent=1, ensure_ascii=False, default=str)
        os.replace(tmp, os.path.join(EVIDENCE, self.prop + ".json"))
        log("[%s] tier=%s seed=%s evaluations=%d distinct_nontrivial=%d inconclusive=%d violations=%d wall=%.0fs counters=%s" % (
            self.prop, self.tier, self.seed, self.evaluations, len(self.sigs), len(self.inconclusive), len(self.violations), wall,
            dict(self.counters)))
        if self.violations:
            seen = set()
            for kind, path in self.violations:
                print("VIOLATION property=%s replay=%s" % (self.prop, path), flush=True)
                if kind not in seen:
                    seen.add(kind)
                    log("  kind=%s (%d cases)" % (kind, self.viol_kinds.get(kind, 1)))
            return 1
        if self.evaluations >= 4 and len(self.inconclusive) * 2 > self.evaluations:
            log("[%s] INCONCLUSIVE: %d of %d cases gave no verdict (harness error / watchdog); examples: %s" % (
                self.prop, len(self.inconclusive), self.evaluations, self.inconclusive[:2]))
            return 2
        if len(self.sigs) < min_nontrivial:
            log("[%s] INCONCLUSIVE: only %d distinct non-trivial cases observed (need %d); examples: %s" % (
                self.prop, len(self.sigs), min_nontrivial, self.inconclusive[:2]))
            return 2
        return 0


def budget(tier, quick_s, thorough_s):
    b = os.environ.get("VERIF_BUDGET_S")
    if b:
        return float(b)
    return quick_s if tier == "quick" else thorough_s
