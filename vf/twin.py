"""Twin engine: the same command sequence through the git-ai proxy (world A) and through plain git (world B)."""
import hashlib
import json
import os
import random
import re
import stat

from .world import World

MARKERS = ["MERGE_HEAD", "CHERRY_PICK_HEAD", "REVERT_HEAD", "REBASE_HEAD", "rebase-merge", "rebase-apply", "sequencer", "MERGE_MSG",
           "SQUASH_MSG", "AUTO_MERGE", "BISECT_LOG", "MERGE_MODE", "ORIG_HEAD", "FETCH_HEAD"]
HOOKS = ["pre-commit", "prepare-commit-msg", "commit-msg", "post-commit", "pre-rebase", "post-rewrite", "post-checkout", "post-merge",
         "pre-merge-commit", "pre-push", "applypatch-msg", "pre-applypatch", "post-applypatch", "reference-transaction"]
CLONE_LINE = re.compile(r"^Fetching git-ai authorship notes, (done|failed)\.\n?", re.M)


def hook_script(name, logpath):
    # logs name, argv and a digest of stdin; reference-transaction is noisy and ordering-sensitive only within one command
    return ("#!/bin/sh\n"
            "in=$(cat | sha1sum | cut -c1-12)\n"
            "echo \"%s $* stdin=$in\" >> \"%s\"\n"
            "exit 0\n") % (name, logpath)


class Twin:
    def __init__(self, name, seed, index, hooks_kind="none", both_modes=False, shim=True):
        self.rng = random.Random("%s:%s:%s" % (seed, name, index))
        self.A = World(name=name + "A", mode="wrapper", shim=shim)
        self.B = World(name=name + "B", mode="plain")
        self.log = []
        self.diffs = []
        self.argv_problems = []
        self.n = 0
        self.files = ["a.txt", "b b.txt", "dir/c.txt", "dir/sub/d é.txt"]
        self.branches = ["main"]
        self.stats = {"commands": 0, "compared": 0, "edits": 0}
        self.hooks_kind = hooks_kind
        for w in (self.A, self.B):
            self._install_user_hooks(w, hooks_kind)
        if both_modes:
            # git-ai's own repository hooks installed *in addition* to the wrapper (double execution must be prevented)
            self.A.install_hooks()

    def _install_user_hooks(self, w, kind):
        if kind == "none":
            return
        gd = os.path.join(w.repo, ".git")
        logp = os.path.join(gd, "userhooks.log")
        hdir = os.path.join(gd, "hooks") if kind == "dot-git" else os.path.join(w.root, "myhooks")
        if kind == "hookspath-rel":
            hdir = os.path.join(w.repo, ".githooks")      # configured as the RELATIVE path `.githooks` (git resolves it against the top level)
        os.makedirs(hdir, exist_ok=True)
        for h in HOOKS:
            if h == "reference-transaction":
                continue
            p = os.path.join(hdir, h)
            with open(p, "w") as f:
                # hooks kept inside the work tree must be byte-identical in both twins (they get staged by `add -A`)
                f.write(hook_script(h, logp) if kind != "hookspath-rel" else hook_script(h, "$(/usr/bin/git rev-parse --absolute-git-dir)/userhooks.log"))
            os.chmod(p, stat.S_IRWXU)
        if kind == "hookspath":
            w.git("config", "core.hooksPath", hdir, plain=True, tick=False)
            self.user_hookspath = hdir.replace(w.root, "<ROOT>")
        if kind == "hookspath-rel":
            w.git("config", "core.hooksPath", ".githooks", plain=True, tick=False)
            self.user_hookspath = ".githooks"

    # ------------------------------------------------------------------ state
    def state(self, w):
        def g(*a):
            return w.ogit(*a)
        refs = "\n".join(l for l in g("for-each-ref", "--format=%(refname) %(objectname)").splitlines()
                         if not l.startswith("refs/notes/ai"))
        wt = {}
        for dp, dn, fn in os.walk(w.repo):
            if ".git" in dn:
                dn.remove(".git")
            for f in fn:
                p = os.path.join(dp, f)
                try:
                    wt[os.path.relpath(p, w.repo)] = hashlib.sha1(open(p, "rb").read()).hexdigest()[:12] + (":x" if os.access(p, os.X_OK) else "")
                except OSError:
                    wt[os.path.relpath(p, w.repo)] = "unreadable"
        gd = os.path.join(w.repo, ".git")
        markers = sorted(x for x in MARKERS if os.path.exists(os.path.join(gd, x)))
        try:
            cfg = open(os.path.join(gd, "config")).read().replace(w.root, "<ROOT>")
            # installed by the harness itself (git-hooks ensure in the both-modes variant), not by the command under test
            up = getattr(self, "user_hookspath", None)
            cfg = cfg.replace("\thooksPath = <ROOT>/repo/.git/ai/hooks\n", ("\thooksPath = %s\n" % up) if up else "")
        except OSError:
            cfg = None
        try:
            hooklog = open(os.path.join(gd, "userhooks.log")).read().replace(w.root, "<ROOT>")
        except OSError:
            hooklog = ""
        # every path under .git outside ai/, objects/, logs/ and the notes refs
        extra = []
        for dp, dn, fn in os.walk(gd):
            rel = os.path.relpath(dp, gd)
            top = rel.split(os.sep)[0]
            if top in ("ai", "objects", "logs"):
                dn[:] = []
                continue
            for f in fn:
                r = os.path.normpath(os.path.join(rel, f))
                if r.startswith("refs/notes/ai") or r in ("index", "userhooks.log", "packed-refs", "COMMIT_EDITMSG", "gc.log") or r.startswith("hooks/"):
                    continue
                extra.append(r)
        return dict(head=g("rev-parse", "-q", "--verify", "HEAD").strip() + "|" + g("symbolic-ref", "-q", "HEAD").strip(),
                    refs=refs, index=g("ls-files", "-s", "--full-name"), stash=g("stash", "list", "--format=%H %gs"),
                    status=g("status", "--porcelain=v2", "--untracked-files=all"), wt=wt, markers=markers, config=cfg,
                    hooklog=hooklog, gitdir_paths=sorted(extra))

    # ------------------------------------------------------------------ actions
    def newline(self):
        self.n += 1
        return "line%04d %d" % (self.n, self.rng.randrange(100))

    def write_both(self, f, text):
        for w in (self.A, self.B):
            w.write_bytes(f, text.encode())

    def edit(self):
        f = self.rng.choice(self.files)
        b = self.A.read_bytes(f)
        cur = b.decode("utf-8", "replace").splitlines() if b is not None else []
        pos = self.rng.randrange(len(cur) + 1)
        cur[pos:pos] = [self.newline() for _ in range(self.rng.randrange(1, 3))]
        if cur and self.rng.random() < 0.3:
            del cur[self.rng.randrange(len(cur))]
        self.write_both(f, "\n".join(cur) + "\n")
        self.log.append(["edit", f])
        self.stats["edits"] += 1

    def ai_edit(self):
        """An agent edit reported to git-ai in world A only (world B has no git-ai); the files change identically."""
        f = self.rng.choice(self.files)
        self.A.human_ckpt([f])
        b = self.A.read_bytes(f)
        cur = b.decode("utf-8", "replace").splitlines() if b is not None else []
        pos = self.rng.randrange(len(cur) + 1)
        cur[pos:pos] = [self.newline() + " ai" for _ in range(self.rng.randrange(1, 4))]
        self.write_both(f, "\n".join(cur) + "\n")
        self.A.ai_ckpt("S%d" % self.rng.randrange(1, 3), [f])
        self.log.append(["ai-edit", f])
        self.stats["edits"] += 1

    def run(self, *args, env=None, compare_stdout=True, input=None, allow_clone_line=False):
        """Run one git command line in both worlds and compare."""
        self.stats["commands"] += 1
        try:
            shim_off = os.path.getsize(self.A.shim_log)
        except OSError:
            shim_off = 0
        pa = self.A.git(*args, env=env, input=input)
        self.check_argv(list(args), shim_off)
        pb = self.B.git(*args, env=env, input=input)
        # the plain twin mirrors the AI notes namespace so that commands which print refs agree
        self.B.ogit("fetch", "-q", "--no-write-fetch-head", self.A.repo, "+refs/notes/ai*:refs/notes/ai*")
        self.log.append(list(args) + ["rc=%d" % pa.rc])
        d = []
        if pa.rc != pb.rc:
            d.append(dict(what="exit", proxy=pa.rc, plain=pb.rc, proxy_stderr=pa.stderr[-300:], plain_stderr=pb.stderr[-300:]))
        if compare_stdout:
            oa = pa.stdout.replace(self.A.root, "<ROOT>")
            ob = pb.stdout.replace(self.B.root, "<ROOT>")
            if allow_clone_line:
                oa = CLONE_LINE.sub("", oa)
            if oa != ob:
                d.append(dict(what="stdout", proxy=oa[-400:], plain=ob[-400:]))
        sa, sb = self.state(self.A), self.state(self.B)
        for k in sa:
            if sa[k] != sb[k]:
                d.append(dict(what="state:" + k, proxy=str(sa[k])[-500:], plain=str(sb[k])[-500:]))
        self.stats["compared"] += 1
        if d:
            self.diffs.append(dict(cmd=list(args), diffs=d[:4]))
        return pa, pb, d

    def run_early_close(self, *args):
        """Run a command whose output is larger than a pipe buffer with a reader that closes the pipe after the first byte: plain git
        dies of SIGPIPE; the proxy must mirror that termination (death by the same signal), not turn it into an exit code."""
        import subprocess
        from .world import BIN, REAL_GIT
        res = []
        # how much does the command print? Only an output several times the size of a pipe buffer makes the writer block for sure
        # before the reader closes; a borderline size makes the outcome a race between writer and reader in either world
        full = subprocess.run([REAL_GIT] + list(args), cwd=self.B.repo, env=self.B.env({}), stdout=subprocess.PIPE, stderr=subprocess.DEVNULL, stdin=subprocess.DEVNULL)
        big_enough = len(full.stdout) >= 4 * 65536
        for w, argv0, extra in ((self.A, [BIN], {"GIT_AI": "git"}), (self.B, [REAL_GIT], {})):
            w.tick()
            e = w.env(extra)
            p = subprocess.Popen(argv0 + list(args), cwd=w.repo, env=e, stdout=subprocess.PIPE, stderr=subprocess.PIPE, stdin=subprocess.DEVNULL)
            try:
                p.stdout.read(1)
                p.stdout.close()
                p.stderr.read()
                p.wait(timeout=60)
                res.append(p.returncode)
            except subprocess.TimeoutExpired:
                p.kill()
                res.append(-999)
        self.stats["commands"] += 1
        self.stats["early_close_runs"] = self.stats.get("early_close_runs", 0) + 1
        self.log.append(list(args) + ["early-close", "rc=%s" % res[0]])
        self.B.ogit("fetch", "-q", "--no-write-fetch-head", self.A.repo, "+refs/notes/ai*:refs/notes/ai*")
        d = []
        if -999 in res:
            return res, d
        if not big_enough:
            self.stats["early_close_output_too_small_to_judge"] = self.stats.get("early_close_output_too_small_to_judge", 0) + 1
        elif res[1] >= 0 and res[0] in (res[1], -13):
            # plain git finished before the reader closed (its output fitted the pipe buffer): the early close was not provoked in the
            # reference world, nothing to compare beyond the state
            self.stats["early_close_not_provoked"] = self.stats.get("early_close_not_provoked", 0) + 1
        elif res[0] != res[1]:
            d.append(dict(what="termination", proxy=res[0], plain=res[1], note="negative = killed by that signal"))
        sa, sb = self.state(self.A), self.state(self.B)
        for k in sa:
            if sa[k] != sb[k]:
                d.append(dict(what="state:" + k, proxy=str(sa[k])[-300:], plain=str(sb[k])[-300:]))
        self.stats["compared"] += 1
        if d:
            self.diffs.append(dict(cmd=list(args) + ["<reader closes early>"], diffs=d[:4]))
        return res, d

    def run_signalled_session(self, signame, ignored):
        """A long-running command (`cat-file --batch`, fed request by request) receives a signal in the middle of its session, sent
        to the process the caller started. `ignored`: the caller had set the signal to SIG_IGN before exec (nohup, `trap '' INT`, a
        background job of a non-interactive shell) - plain git inherits that, ignores the signal and finishes the session; otherwise
        plain git dies of it. The proxy must end the same way (same exit status / same fatal signal, same bytes answered)."""
        import signal
        import subprocess
        from .world import BIN, REAL_GIT
        sig = getattr(signal, signame)
        res = []
        for w, argv0, extra in ((self.A, [BIN], {"GIT_AI": "git"}), (self.B, [REAL_GIT], {})):
            w.tick()
            pre = (lambda: signal.signal(sig, signal.SIG_IGN)) if ignored else None
            p = subprocess.Popen(argv0 + ["cat-file", "--batch-check"], cwd=w.repo, env=w.env(extra), stdin=subprocess.PIPE, stdout=subprocess.PIPE,
                                 stderr=subprocess.PIPE, preexec_fn=pre)
            out = b""
            try:
                p.stdin.write(b"HEAD\n"); p.stdin.flush()
                out += p.stdout.readline()          # the proxied git is up and answering
                os.kill(p.pid, sig)
                if ignored:
                    import time
                    time.sleep(0.05)
                    p.stdin.write(b"HEAD^{tree}\n"); p.stdin.flush()
                    out += p.stdout.readline()
                else:
                    # the session is kept open until the signal has done its work: closing stdin right away would let the proxied
                    # git finish on EOF before the (not yet scheduled) proxy has been handed the signal - a race every forwarding
                    # parent has and the property does not exclude. A proxy that does not forward at all runs into the timeout
                    # and ends 0 once stdin is closed.
                    try:
                        p.wait(timeout=20)
                    except subprocess.TimeoutExpired:
                        pass
                p.stdin.close()
            except (BrokenPipeError, OSError):
                pass
            try:
                out += p.stdout.read()
                p.stderr.read()
                p.wait(timeout=60)
                res.append((p.returncode, out))
            except subprocess.TimeoutExpired:
                p.kill()
                res.append((-999, out))
        self.stats["commands"] += 1
        self.stats["signalled_sessions"] = self.stats.get("signalled_sessions", 0) + 1
        self.log.append(["cat-file", "--batch-check", "<%s %s mid-session>" % (signame, "ignored by the caller" if ignored else "default"), "rc=%s" % res[0][0]])
        d = []
        if -999 in (res[0][0], res[1][0]):
            return res, d
        if res[0][0] != res[1][0]:
            d.append(dict(what="termination", proxy=res[0][0], plain=res[1][0], note="negative = killed by that signal; signal %s, %s" % (signame, "SIG_IGN inherited from the caller" if ignored else "default disposition")))
        elif ignored and res[0][1] != res[1][1]:
            d.append(dict(what="stdout", proxy=res[0][1][-300:].decode("utf-8", "replace"), plain=res[1][1][-300:].decode("utf-8", "replace")))
        self.stats["compared"] += 1
        if d:
            self.diffs.append(dict(cmd=["cat-file", "--batch-check", "<%s mid-session, %s>" % (signame, "ignored" if ignored else "default")], diffs=d[:4]))
        return res, d

    def check_argv(self, user_argv, shim_off):
        """C18 (CLI level): the argv the recording stand-in saw for the proxied call is the user's argv, apart from the documented
        `-c core.hooksPath=<path>` prefix; help/version normalisations are compared by the caller (in-process check)."""
        try:
            with open(self.A.shim_log) as f:
                f.seek(shim_off)
                calls = [json.loads(l) for l in f if l.strip()]
        except (OSError, ValueError):
            return
        prox = [c for c in calls if c.get("proxied")]
        self.stats["internal_git_calls"] = self.stats.get("internal_git_calls", 0) + len(calls) - len(prox)
        if not prox:
            self.argv_problems.append(dict(user=user_argv, problem="no proxied call recorded", internal=len(calls)))
            return
        if len(prox) > 1:
            self.argv_problems.append(dict(user=user_argv, problem="proxied git spawned %d times" % len(prox), seen=[c["argv"] for c in prox][:3]))
        seen = list(prox[0]["argv"])
        while len(seen) >= 2 and seen[0] == "-c" and seen[1].startswith("core.hooksPath="):
            seen = seen[2:]
        self.stats["proxied_argv_compared"] = self.stats.get("proxied_argv_compared", 0) + 1
        if seen != user_argv:
            self.argv_problems.append(dict(user=user_argv, seen=prox[0]["argv"]))

    def destroy(self):
        self.A.destroy()
        self.B.destroy()
