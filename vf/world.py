"""Isolated worlds in which the real git-ai binary is driven.

A world = scratch dir with its own $HOME (.gitconfig, .git-ai/config.json), one
main repository (more can be added) and a trace file.  Commit dates are logical
(one tick per *script step*), so object ids are a pure function of the script.
"""
import hashlib
import json
import os
import shutil
import subprocess
import tempfile

VERIF = os.path.dirname(os.path.dirname(os.path.abspath(__file__)))
BUILD = os.environ.get("VERIF_BUILD_DIR") or os.path.join(VERIF, ".build")
BIN = os.environ.get("VERIF_GITAI_BIN", os.path.join(BUILD, "target", "debug", "git-ai"))
SHIM = os.path.join(BUILD, "bin", "gitshim")
REAL_GIT = "/usr/bin/git"
EPOCH = 1767225600  # 2026-01-01T00:00:00Z, later than git-ai's oldest AI blame date
TIMEOUT = 90

_scratch_parent = None


def scratch_parent():
    """Per-run parent for worlds: $VERIF_SCRATCH or a mkdtemp; never pre-existing state."""
    global _scratch_parent
    if _scratch_parent is None:
        p = os.environ.get("VERIF_SCRATCH")
        if p:
            os.makedirs(p, exist_ok=True)
            _scratch_parent = p
        else:
            base = "/dev/shm" if os.path.isdir("/dev/shm") and os.access("/dev/shm", os.W_OK) else None
            _scratch_parent = tempfile.mkdtemp(prefix="vf-", dir=base)
    return _scratch_parent


def session_hash(session, tool="tool"):
    return hashlib.sha256(("%s:%s" % (tool, session)).encode()).hexdigest()[:16]


class Panic(Exception):
    pass


class Proc:
    __slots__ = ("rc", "out", "err", "argv")

    def __init__(self, rc, out, err, argv):
        self.rc, self.out, self.err, self.argv = rc, out, err, argv

    @property
    def stdout(self):
        return self.out.decode("utf-8", "replace")

    @property
    def stderr(self):
        return self.err.decode("utf-8", "replace")


def run(argv, cwd, env, input=None, timeout=TIMEOUT):
    try:
        p = subprocess.run(argv, cwd=cwd, env=env, input=input, stdout=subprocess.PIPE, stderr=subprocess.PIPE, timeout=timeout)
        return Proc(p.returncode, p.stdout, p.stderr, argv)
    except subprocess.TimeoutExpired as e:
        return Proc(-999, e.stdout or b"", (e.stderr or b"") + b"\n[verif watchdog timeout]", argv)


class World:
    def __init__(self, name="w", mode="wrapper", prompt_storage="notes", gitconfig_extra="", config_extra=None,
                 shim=False, env_extra=None, root=None, init=True, init_args=()):
        self.root = root or tempfile.mkdtemp(prefix=name + "-", dir=scratch_parent())
        self.home = os.path.join(self.root, "home")
        self.repo = os.path.join(self.root, "repo")
        self.mode = mode  # wrapper | hooks | plain
        self.step = 0
        self.trace_path = os.path.join(self.root, "trace.jsonl")
        self.shim_log = os.path.join(self.root, "shim.jsonl")
        self.shim_counter = os.path.join(self.root, "shim.count")
        self.shim = shim
        self.rec = []          # concrete action log (see vf/recorded.py): replayable without the generator
        self.init_kwargs = dict(mode=mode, prompt_storage=prompt_storage, gitconfig_extra=gitconfig_extra, config_extra=config_extra,
                                shim=shim, env_extra=env_extra, init_args=list(init_args))
        os.makedirs(os.path.join(self.home, ".git-ai"), exist_ok=True)
        os.makedirs(self.repo, exist_ok=True)
        self.gitconfig = os.path.join(self.home, ".gitconfig")
        with open(self.gitconfig, "w") as f:
            f.write("[user]\n\tname = Test User\n\temail = test@example.com\n[init]\n\tdefaultBranch = main\n"
                    "[advice]\n\tdetachedHead = false\n" + gitconfig_extra)
        cfg = {"prompt_storage": prompt_storage, "telemetry_oss": "off", "disable_version_checks": True,
               "disable_auto_updates": True, "quiet": True}
        if shim:
            cfg["git_path"] = SHIM
        if config_extra:
            cfg.update(config_extra)
        self.config = cfg
        self.write_config()
        self.env_base = {
            "HOME": self.home, "PATH": os.environ.get("PATH", "/usr/bin:/bin"), "LC_ALL": "C", "TZ": "UTC",
            "GIT_CONFIG_NOSYSTEM": "1", "GIT_CONFIG_GLOBAL": self.gitconfig,
            "GIT_AI_TEST_DB_PATH": os.path.join(self.root, "db.sqlite"), "GIT_AI_DEBUG": "0",
            "GIT_AI_REWRITE_STASH": "true", "GIT_AI_VERIF_TRACE": self.trace_path,
            "GIT_EDITOR": "true", "GIT_SEQUENCE_EDITOR": "true", "GIT_MERGE_AUTOEDIT": "no",
            "GIT_TERMINAL_PROMPT": "0", "GIT_PAGER": "cat", "PAGER": "cat",
        }
        if shim:
            self.env_base.update({"GITSHIM_LOG": self.shim_log, "GITSHIM_COUNTER": self.shim_counter, "GITSHIM_REAL": REAL_GIT})
        if env_extra:
            self.env_base.update(env_extra)
        self.oracle_env = {
            "HOME": os.path.join(self.root, "nohome"), "PATH": self.env_base["PATH"], "LC_ALL": "C", "TZ": "UTC",
            "GIT_CONFIG_NOSYSTEM": "1", "GIT_CONFIG_GLOBAL": "/dev/null", "GIT_PAGER": "cat", "GIT_TERMINAL_PROMPT": "0",
            "GIT_OPTIONAL_LOCKS": "0",
        }
        if init:
            self.git("init", "-q", *init_args, ".", plain=True)
            if mode == "hooks":
                self.install_hooks()

    # ---- configuration
    def write_config(self):
        with open(os.path.join(self.home, ".git-ai", "config.json"), "w") as f:
            json.dump(self.config, f)

    def install_hooks(self, repo=None):
        e = self.env()
        e["GIT_AI_GLOBAL_GIT_HOOKS"] = "true"
        p = run([BIN, "git-hooks", "ensure"], repo or self.repo, e)
        if p.rc != 0:
            raise RuntimeError("git-hooks ensure failed: " + p.stderr[-400:])
        self.env_base["GIT_AI_GLOBAL_GIT_HOOKS"] = "true"

    # ---- environment / clock
    def tick(self):
        self.step += 1

    def env(self, extra=None):
        e = dict(self.env_base)
        d = "@%d +0000" % (EPOCH + self.step)
        e["GIT_AUTHOR_DATE"] = d
        e["GIT_COMMITTER_DATE"] = d
        if extra:
            e.update(extra)
        return e

    # ---- runners
    def git(self, *args, cwd=None, plain=False, env=None, input=None, tick=True, timeout=TIMEOUT):
        """Run a git command the way the user would in this world's mode."""
        if tick:
            self.tick()
        e = self.env(env)
        pre = []
        run_cwd = cwd or self.repo
        if not plain and cwd is None:
            inv = getattr(self, "invoke", "cwd")
            pathless = not any(a == "--" for a in args) and args and args[0] in ("commit", "status", "rebase", "cherry-pick", "merge", "log", "stash", "reset", "checkout", "switch", "branch")
            sd = os.path.join(self.repo, getattr(self, "subdir", "."))
            if inv == "dash-C":
                pre = ["-C", self.repo]
                run_cwd = self.root
            elif inv == "dash-C-c":
                # -C together with another global option
                pre = ["-C", self.repo, "-c", "verif.ctx=1"]
                run_cwd = self.root
            elif inv == "dash-C-C":
                # two -C options (the second relative to the first); for commands without path arguments the second one goes on into the sub-directory
                pre = ["-C", self.root, "-C", os.path.relpath(self.repo, self.root)] + (["-C", getattr(self, "subdir", ".")] if pathless and os.path.isdir(sd) else [])
                run_cwd = "/"
            elif inv == "gitdir-worktree":
                # the form IDE integrations use: absolute --git-dir / --work-tree, started from a sub-directory where that is possible
                pre = ["--git-dir", os.path.join(self.repo, ".git"), "--work-tree", self.repo]
                if pathless and os.path.isdir(sd):
                    run_cwd = sd
            elif inv in ("subdir", "subdir-c") and pathless:
                if os.path.isdir(sd):
                    run_cwd = sd
                if inv == "subdir-c":
                    pre = ["-c", "verif.ctx=1"]      # a sub-directory together with a global option
            elif inv == "subdir-c":
                pre = ["-c", "verif.ctx=1"]
        if plain or self.mode in ("plain", "hooks"):
            argv = [REAL_GIT] + pre + list(args)
        else:
            e["GIT_AI"] = "git"
            argv = [BIN] + pre + list(args)
        self._record("git", list(args), cwd, env, input, plain=bool(plain), tick=bool(tick))
        p = run(argv, run_cwd, e, input=input, timeout=timeout)
        if b"panicked at" in p.err and getattr(self, "panic_is_error", True):
            raise Panic("panic in %r: %s" % (args, p.stderr[-600:]))
        return p

    def ga(self, *args, cwd=None, env=None, input=None, timeout=TIMEOUT):
        """Run git-ai directly (checkpoint, blame, stats, ...)."""
        if args and args[0] == "checkpoint":
            self._record("ga", list(args), cwd, env, input)
        return run([BIN] + list(args), cwd or self.repo, self.env(env), input=input, timeout=timeout)

    def _rel(self, v):
        if isinstance(v, str):
            return v.replace(self.root, "{ROOT}")
        if isinstance(v, bytes):
            return v.decode("utf-8", "replace").replace(self.root, "{ROOT}")
        if isinstance(v, (list, tuple)):
            return [self._rel(x) for x in v]
        if isinstance(v, dict):
            return {k: self._rel(x) for k, x in v.items()}
        return v

    def _record(self, kind, args, cwd=None, env=None, input=None, **kw):
        self.rec.append(dict(k=kind, step=self.step, args=self._rel(args), cwd=self._rel(cwd) if cwd else None,
                             env=self._rel(env) if env else None, input=self._rel(input) if input is not None else None, **kw))

    def ogit(self, *args, cwd=None, input=None, raw=False, check=False):
        """Oracle-side git: neutral configuration, never through git-ai."""
        argv = [REAL_GIT, "-c", "core.quotePath=false", "-c", "color.ui=false", "-c", "core.pager=cat",
                "-c", "core.hooksPath=/dev/null", "-c", "core.fsmonitor=false"] + list(args)
        if args and args[0] in ("hash-object", "update-index", "fast-import", "update-ref"):
            self._record("ogit", list(args), cwd, None, input)
        p = run(argv, cwd or self.repo, self.oracle_env, input=input)
        if check and p.rc != 0:
            raise RuntimeError("oracle git %r failed: %s" % (args, p.stderr[-300:]))
        return p if raw else p.stdout

    # ---- agent protocol
    def human_ckpt(self, files, cwd=None, repo_dir=None):
        payload = {"type": "human", "repo_working_dir": repo_dir or cwd or self.repo, "will_edit_filepaths": list(files)}
        p = self.ga("checkpoint", "agent-v1", "--hook-input", json.dumps(payload), cwd=cwd)
        self._ck(p)
        return p

    def ai_ckpt(self, session, files, cwd=None, repo_dir=None, messages=None, tool="tool", model="m"):
        msgs = messages if messages is not None else [{"type": "user", "text": "CANARY-%s please edit" % session}]
        payload = {"type": "ai_agent", "repo_working_dir": repo_dir or cwd or self.repo, "edited_filepaths": list(files),
                   "transcript": {"messages": msgs}, "agent_name": tool, "model": model, "conversation_id": session}
        p = self.ga("checkpoint", "agent-v1", "--hook-input", json.dumps(payload), cwd=cwd)
        self._ck(p)
        return p

    def _ck(self, p):
        if b"panicked at" in p.err and getattr(self, "panic_is_error", True):
            raise Panic("panic in checkpoint: " + p.stderr[-600:])
        if p.rc != 0:
            raise RuntimeError("checkpoint exited %d: %s" % (p.rc, p.stderr[-400:]))

    # ---- files
    def path(self, f, repo=None):
        return os.path.join(repo or self.repo, f)

    def write_bytes(self, f, data, repo=None):
        p = self.path(f, repo)
        try:
            self.rec.append(dict(k="write", f=f, repo=self._rel(repo) if repo else None, data=data.decode("utf-8")))
        except UnicodeDecodeError:
            import base64
            self.rec.append(dict(k="write", f=f, repo=self._rel(repo) if repo else None, b64=base64.b64encode(data).decode()))
        os.makedirs(os.path.dirname(p), exist_ok=True)
        with open(p, "wb") as fh:
            fh.write(data)

    def read_bytes(self, f, repo=None):
        try:
            with open(self.path(f, repo), "rb") as fh:
                return fh.read()
        except (FileNotFoundError, IsADirectoryError, NotADirectoryError):
            return None

    # ---- trace
    def trace(self):
        out = []
        try:
            with open(self.trace_path) as f:
                for ln in f:
                    try:
                        out.append(json.loads(ln))
                    except ValueError:
                        pass
        except FileNotFoundError:
            pass
        return out

    def shim_calls(self):
        out = []
        try:
            with open(self.shim_log) as f:
                for ln in f:
                    try:
                        out.append(json.loads(ln))
                    except ValueError:
                        pass
        except FileNotFoundError:
            pass
        return out

    def destroy(self):
        shutil.rmtree(self.root, ignore_errors=True)


def copy_world(w, name="copy"):
    """Byte copy of a world (repo + home + journals) under a new root; paths inside config are rewritten."""
    new_root = tempfile.mkdtemp(prefix=name + "-", dir=scratch_parent())
    os.rmdir(new_root)
    shutil.copytree(w.root, new_root, symlinks=True)
    nw = World.__new__(World)
    nw.__dict__.update(w.__dict__)
    nw.root = new_root
    for attr in ("home", "repo", "trace_path", "shim_log", "shim_counter", "gitconfig"):
        setattr(nw, attr, getattr(w, attr).replace(w.root, new_root))
    nw.env_base = {k: (v.replace(w.root, new_root) if isinstance(v, str) else v) for k, v in w.env_base.items()}
    nw.oracle_env = {k: (v.replace(w.root, new_root) if isinstance(v, str) else v) for k, v in w.oracle_env.items()}
    nw.config = dict(w.config)
    return nw
