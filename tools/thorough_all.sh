#!/bin/sh
# usage: tools/thorough_all.sh "<props>"   - runs the thorough tier of the given checks one after the other (build-out aid; uses /verif/.build)
export VERIF_BUILD_DIR=/verif/.build
for p in $1; do
  ./check $p --tier thorough --no-build 2>&1 | grep -E "^\[$p\]|VIOLATION|kind=|INCONCLUSIVE|KNOWN-FINDING" | cut -c1-220
done
