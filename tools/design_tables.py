#!/usr/bin/env python3
"""Regenerates the generated blocks of DESIGN.md (between <!-- BEGIN x --> / <!-- END x --> markers) from known_findings.json, seeded/*/meta.json and evidence/*.json."""
import glob, json, os, re
HERE = os.path.dirname(os.path.dirname(os.path.abspath(__file__)))
K = json.load(open(os.path.join(HERE, "known_findings.json")))["findings"]


def esc(t):
    return t.replace("|", "\\|").replace("\n", " ")


def findings():
    out = ["| id | property (also surfaces under) | status | failing input / history / schedule | how the check treats it |", "|----|----|----|----|----|"]
    def key(e):
        return (int(re.sub(r"\D", "", e["id"]) or 0), e["id"])
    for e in sorted(K, key=key):
        aff = e.get("affects") or []
        prop = e["property"] + (" (+%d)" % len(aff) if aff else "")
        if e["status"] == "fixed":
            what = e["record"].split(" ", 3)[3]
            out.append("| %s | %s | **fixed** `%s` | %s | witness `%s` must pass on every run; no generator flag |" % (e["id"], prop, e["commit"], esc(what), e.get("witness")))
        else:
            fl = ", ".join("`%s`" % esc(f) for f in (e.get("trigger_off") or [])) or "none (identified by call site)"
            out.append("| %s | %s | open | %s | witness `%s` prints KNOWN-FINDING while signature `%s` reproduces; random exploration without %s |" % (e["id"], prop, esc(e["what"]), e.get("witness"), esc(e["signature"]), fl))
    return "\n".join(out)


def seeded():
    out = ["| seeded change | what it breaks (author's summary, shortened) | needs to manifest | caught by (quick tier, seed 1) | strengthening that was needed |", "|----|----|----|----|----|"]
    for d in sorted(glob.glob(os.path.join(HERE, "seeded", "*", "meta.json"))):
        m = json.load(open(d))
        det = m.get("detection", {})
        out.append("| `%s` | %s | %s | %s | %s |" % (os.path.basename(os.path.dirname(d)), esc((m.get("breaks") or m.get("summary") or "")[:420]),
                   esc((m.get("needs_to_manifest") or m.get("what_it_needs_to_manifest") or "")[:300]), esc(det.get("result", "?")), esc(det.get("strengthening", "?"))))
    return "\n".join(out)


def volumes():
    out = ["| id | tier | seed | evaluations | distinct non-trivial | inconclusive | wall | main counters |", "|----|----|----|----|----|----|----|----|"]
    for f in sorted(glob.glob(os.path.join(HERE, "evidence", "C*.json"))):
        j = json.load(open(f))
        cov = j.get("coverage", {})
        cnt = cov.get("counters", {})
        keys = [k for k in cnt if k not in ("witnesses_replayed",)][:6]
        out.append("| %s | %s | %s | %s | %s | %s | %ss | %s |" % (j.get("property_id"), j.get("tier"), j.get("seed"),
                   cov.get("evaluations"), cov.get("distinct_nontrivial"), cov.get("inconclusive", 0), j.get("wall_s", "?"),
                   esc(", ".join("%s=%s" % (k, cnt[k]) for k in keys))))
    return "\n".join(out)


def main():
    p = os.path.join(HERE, "DESIGN.md")
    s = open(p).read()
    for name, fn in (("findings", findings), ("seeded", seeded), ("volumes", volumes)):
        a, b = "<!-- BEGIN %s -->" % name, "<!-- END %s -->" % name
        if a in s:
            i, j = s.index(a) + len(a), s.index(b)
            s = s[:i] + "\n" + fn() + "\n" + s[j:]
    open(p, "w").write(s)


main()
