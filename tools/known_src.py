#!/usr/bin/env python3
"""Source of known_findings.json (run by hand after editing; the JSON file is what the checks read, never written at run time)."""
import json, os, subprocess
HERE = os.path.dirname(os.path.dirname(os.path.abspath(__file__)))

def fixc(grep):
    return subprocess.run(["git", "-C", "/repo", "log", "--format=%h", "--grep=" + grep, "-1"], capture_output=True, text=True).stdout.strip()

LEDGER = ["C01", "C02", "C03", "C04", "C05", "C08", "C09", "C12", "C13", "C14", "C15", "C19"]
def aff(p):
    return [x for x in LEDGER if x != p]

F = []
def open_(prop, id_, sig, also, what, witness, flags, affects=None, cells=None, cell_kinds=None, cells2=None, cell_kinds2=None):
    F.append(dict(property=prop, id=id_, status="open", signature=sig, also=also, what=what, witness=witness, trigger_off=flags,
                  affects=aff(prop) if affects is None else affects))
    if cells:
        # cells of C03's (pending state|discarding command|follow-up) table that fail because of this finding, and with which rules
        F[-1]["cells"] = cells
        F[-1]["cell_kinds"] = cell_kinds
    if cells2:
        # cells of C02's (operation|upstream change|agent-line position) table
        F[-1]["cells2"] = cells2
        F[-1]["cell_kinds2"] = cell_kinds2
def fixed(prop, id_, grep, what, witness):
    c = fixc(grep)
    assert c, grep
    F.append(dict(property=prop, id=id_, status="fixed", commit=c, record="fixed: property=%s %s %s" % (prop, c, what), signature="any", witness=witness))

open_("C07", "D67", "C07/attribution-invented-after-journal-loss", [],
      "fault: a person's uncommitted lines of f.txt are on record (IDE-style human checkpoint); `.git/ai/working_logs/<HEAD>/checkpoints.jsonl` is deleted (likewise emptied, or the record's content snapshot under `blobs/` deleted or damaged by one byte); an agent then appends a line to f.txt and reports it; commit => the note credits the agent's session with the person's two lines as well. With the record gone git-ai diffs the agent's report against HEAD and has no way to know about the person's text: attribution is invented after a loss of private state (a journal that is merely cut in the middle of a record is noticed and nothing is attributed)",
      "c07.journal_deleted_between_person_checkpoint_and_agent_report", ["corrupt_loses_person_checkpoint"], affects=[])
# ---------------------------------------------------------------- C01
open_("C01", "D17", "C01/missing-from-note@f.txt:4", ["C01/lost@f.txt:4"],
      "history: AI session adds 2 lines to f.txt, commit; a person re-indents the first of them (whitespace only), commit => the re-indented line is absent from the new commit's note and blame reports it human (whitespace-only edit of an AI line that an earlier commit already contains; same when the editor is an AI session or when only the final newline is added)",
      "c01.reindent_committed_ai_line", ["reindent_committed_ai"])
open_("C01", "D71", "C01/missing-from-note@back\\slash.txt:4", ["C01/missing-from-note@back\\slash.txt:5", "C01/lost@back\\slash.txt:4", "C01/lost@back\\slash.txt:5"],
      "input: a tracked file named `back\\slash.txt` (a backslash is an ordinary character in a Linux file name) gets two agent lines and is committed => the note does not list them and blame reports them human (paths are normalised as if the backslash were a directory separator)",
      "c01.file_name_with_backslash", ["name:backslash"])
open_("C01", "D13", "C01/missing-from-note@f.txt:4", ["C01/lost@f.txt:4"],
      "history: AI session inserts 5 lines at the top of f.txt; before any further checkpoint a person re-indents the 4th and deletes the next two lines; commit => the re-indented AI line is committed as human",
      "c01.reindent_and_delete_next_line", ["reindent_delete_combo"])
fixed("C01", "D1", "^fix: added lines starting", "an added AI line whose text starts with '++ ' was read as a '+++' file header by parse_diff_added_lines*, dropping later AI lines of the file from the note", "c01.plusplus_line_then_more_ai_lines")
fixed("C01", "D10", "^fix: a newer checkpoint entry", "AI lines fully replaced by a person before the commit were still committed as AI (from_just_working_log kept an older entry when the newest entry of the file had no AI lines)", "c01.human_replaces_all_ai_lines")
# ---------------------------------------------------------------- C03
open_("C03", "D3p", "C03/unsound-note@f.txt:5", ["C03/unsound-note@f.txt:6", "C03/unsound-blame@f.txt:5", "C03/unsound-blame@f.txt:6", "C04/lost@f.txt:7", "C04/lost@f.txt:8", "C04/missing-from-note@f.txt:7", "C04/missing-from-note@f.txt:8"],
      "history: AI session appends 2 lines to f.txt and 1 to g.txt; `git add g.txt; git commit` (f.txt's AI lines stay pending as line numbers 5-6 in INITIAL); a person inserts 2 lines above them without any checkpoint; commit => the person's lines 5-6 are committed as AI and the AI lines 7-8 as human (INITIAL is a line-number-only claim with no content check)",
      "c03.unreported_human_edit_above_pending_ai_lines", ["human_edit_on_pending_unreported"])
open_("C03", "D24", "C03/unsound-note@f.txt:4", ["C03/unsound-blame@f.txt:4"],
      "history: an AI session appends two spaces to lines 3-4 of f.txt (content committed earlier by a person); `git stash push`; a commit to another file; `git stash pop`; commit => line 4, whose content a person wrote, is credited to the session",
      "c03.ai_reindents_human_lines_then_stash_roundtrip", ["ai_ws_touch_strict"])
open_("C03", "D36", "C03/unsound-note@src/c.rs:11", ["C03/unsound-note@src/c.rs:12", "C03/unsound-blame@src/c.rs:11", "C03/unsound-blame@src/c.rs:12", "C05/hash-without-prompt"],
      "history (recorded script witnesses/d36_c03_1_230.json): S2 inserts 2 lines into src/c.rs (and other edits); a commit of another file only turns them into INITIAL-only pending claims; `git stash push` followed by `git stash clear` discards the work; a person types 3 lines at the same position; commit => the person's lines src/c.rs:11-12 are committed as S2, and the note lists a session hash without a prompt record",
      "recorded:witnesses/d36_c03_1_230.json", ["stash_discard_with_initial_pending"],
      cells=["initial|stash-*|person*", "initial-staged|stash-*|person*"], cell_kinds=["C03/unsound-note", "C03/unsound-blame", "C05/hash-without-prompt"])
fixed("C03", "D55", "^fix: git restore and path checkouts without", "S2's line at the top of f.txt was pending (a commit of another file left it uncommitted, so only INITIAL held it, by line number); `git restore -- f.txt` (likewise `git restore .`, `--staged --worktree`, `--source HEAD`, and `git checkout f.txt` / `git checkout .` / `git checkout HEAD f.txt` without `--`) discarded it; a person, reported by an IDE-style checkpoint, typed three lines at the top; commit => the person's first line was committed as S2's: `git restore` was not hooked at all and path checkouts were only recognised after `--`, so the stale INITIAL survived (39 cells of the C03 discard table)", "c03.restore_discards_pending_lines_then_person_types_there")
open_("C03", "D56", "C05/hash-without-prompt", [],
      "history: S1's three lines in f.txt are pending (INITIAL) after a commit of `-dash.txt` only, whose edit a person reported by a checkpoint; `git add -A; git reset -q -- -dash.txt`; the person edits `-dash.txt`; commit => the note lists S1's hash for f.txt without a prompt record (for a pathspec whose name starts with a dash the pathspec reset archives HEAD's working log, INITIAL prompts included, and rebuilds it from checkpoints only)",
      "c03.reset_path_with_dash_name_loses_prompt_record", ["reset_path_dash_name"])
fixed("C03", "D57", "^fix: pre-commit checkpoint looks at untracked", "S1 creates g.txt (5 lines) which stays untracked; a commit of nothing turns its lines into INITIAL-only pending claims; a person (checkpoint taken) deletes two of them and appends two own lines; another commit that does not include g.txt; then everything is committed => the person's lines 4-5 were committed as S1's (the pre-commit checkpoint skipped untracked files whenever the working log had no agent checkpoint, although INITIAL claimed lines in one)", "c03.person_edits_untracked_file_with_pending_ai_lines_across_a_commit")
fixed("C03", "D3", "^fix: writing an empty pending set", "after a partial commit left AI lines pending, `git checkout -- f` discarded them but the stale INITIAL survived (write_initial_attributions returned early on an empty set) and lines a person typed at the same positions were committed as AI", "c03.path_checkout_then_human_types_same_lines")
open_("C05", "D4", "C05/unparsable-note", [],
      "history: a tracked file named `---` gets one AI line and is committed => the note's attestation section contains the path line `---`, which every reader (git-ai's own parser and the spec grammar) takes for the divider: the note is unreadable (metadata is not JSON)",
      "c05.file_named_like_the_divider", ["name:---"], affects=["C17"])
open_("C05", "D27", "C05/path-not-in-commit", [],
      "history: a tracked file named `nl<LF>name.txt` gets one AI line and is committed => the quoted path is written with the raw newline, so the attestation section has two path lines `\"nl` and `name.txt\"`, neither of which exists in the commit",
      "c05.file_name_with_newline", ["name:nl\nname.txt"], affects=["C17"])
open_("C13", "D65", "C13/lost@hooks-pull-dup", [],
      "history: a local commit with an agent's line is also upstream as an identical patch (cherry-picked there with plain git after an upstream-only commit); uncommitted agent work on top; `git pull --rebase --autostash origin main` drops the local commit as already applied => through the wrapper the agent's committed line keeps its session, with git-ai installed as git hooks it becomes human (upstream's copy of the commit has no note; only the wrapper maps the dropped commit's note onto it)",
      "c13.pull_rebase_drops_local_commit_that_upstream_has", ["pull_dup_commit_ai"], affects=[])
open_("C13", "D28", "C13/lost@f.txt:2", ["C13/lost@f.txt:3"],
      "history: AI session inserts 2 lines after line 1 of f.txt; `git stash push`; a commit to g.txt; `git stash apply`; commit => in wrapper mode lines 2-3 are AI, with git-ai installed as git hooks (plain git) they are human (`stash pop` keeps them in both modes)",
      "c13.stash_apply_after_head_moved_in_hooks_mode", ["hooks_stash_apply"], affects=[])
open_("C19", "D63", "C19/breakdown-ai_additions", ["C19/breakdown-mixed_additions"],
      "history (recorded script witnesses/d63_c19_2_4.json, reduced by tools/ddmin.py): S1 writes five lines into a new file a.txt, S2 appends one, a person rewrites S1's first two lines (one of them keeps the `# ` prefix); `git commit --allow-empty` with nothing staged as the first commit. The commit adds no lines, its note still carries S1's prompt record with overriden_lines=1: the commit-level mixed_additions is capped at (added - accepted) = 0 while the per-tool figure is not, so tool_model_breakdown sums to mixed_additions=1 / ai_additions=1 against totals of 0. Identified by call site: a breakdown mismatch of mixed_additions / ai_additions on a commit whose prompt records' overridden-line counters exceed (added - accepted), i.e. where the cap is active",
      "recorded:witnesses/d63_c19_2_4.json", ["stats_breakdown_under_cap"], affects=[])
open_("C19", "D32", "C19/accepted", ["C19/ai_additions>added", "C19/human+accepted!=added"],
      "input: commit adds 1 AI line (f.txt:4, session S1); the note is rewritten so that a second session entry also lists line 4 (as merged or foreign notes can); `git-ai stats <sha> --json` => ai_accepted=2 and ai_additions=2 for git_diff_added_lines=1 (accepted_lines_from_attestations sums per entry without de-duplicating lines)",
      "c19.line_listed_by_two_sessions_counts_twice", ["overlap_injection"], affects=[])
open_("C09", "D59", "C09/json-failed@-L 3,+2", ["C09/ai-verdict@-L 3", "C09/json-failed@-L ,4", "C09/json-failed@-L 3,", "C09/json-failed@-L 5,-2"],
      "input: `git-ai blame -L <range> f.txt` with git's range forms other than `a,b`: `-L 3,+2` (two lines from line 3) is read as 3..2 and refused (`Invalid line range: 3:2`), `-L 5,-2`, `-L 3,` and `-L ,4` are refused, `-L 3` (from line 3 to the end of the file) blames line 3 only; git blame accepts all of them. Several `-L a,b` options (disjoint, overlapping, nested, any order) do agree with git",
      "c09.relative_and_open_ended_line_ranges", ["blame_L_relative_forms"], affects=[])
open_("C09", "D60", "C09/json-failed", [],
      "input: `git-ai blame -w f.txt` (ignore whitespace when comparing, one of the options the property names) => exit 1 `Unknown option: -w`; git blame -w exits 0",
      "c09.ignore_whitespace_option", ["blame_w"], affects=[])
open_("C09", "D14", "C09/empty-file-fails", [],
      "input: `git-ai blame empty.txt` (any output format) for an empty tracked file => exit 1 'Invalid line range: 1:0. File has 0 lines'; `git blame` exits 0 with no output (the pinned suite asserts the error, test_blame_edge_empty_file, so the repair is not an unedited-suite-compatible fix)",
      "c09.blame_of_empty_tracked_file", ["blame_empty_file"], affects=[])
fixed("C09", "D7", "^fix: blame looks AI lines up under the path", "after `git mv f.txt g.txt` without any edit every AI line of the file was reported human by `git-ai blame g.txt` (the note lookup used the current path instead of the path in the originating commit)", "c09.rename_without_edit_keeps_ai_lines")
fixed("C08", "D6", "^fix: commit --amend applies the prompt storage mode", "with prompt_storage default/local (or a per-repository exclusion) `git commit --amend` after an AI edit wrote the full inline transcript into refs/notes/ai, and with `notes` it wrote planted secrets unmasked (rewrite_authorship_after_commit_amend bypassed the storage-mode filter of post_commit)", "c08.amend_in_default_storage_mode")
open_("C12", "D15", "C05/base_commit_sha", ["C03/unsound-note@f.txt:6", "C03/unsound-note@f.txt:7", "C12/lost@f.txt:8", "C12/lost@f.txt:9"],
      "configuration: notes.rewriteRef=refs/notes/* with notes.rewrite.rebase=true; history: feature commit appends 2 AI lines to f.txt, upstream inserts 2 lines at the top, `git rebase main` => git itself copies the old note verbatim to the rewritten commit and git-ai then skips that commit ('already has a note'): base_commit_sha names the old commit, lines 6-7 (a person's) are listed as AI and the AI lines 8-9 are human",
      "c12.notes_rewrite_ref_copies_note_verbatim", ["setting:rewriteref"], affects=[])
open_("C13", "D33", "C13/lost@g.txt:2", [],
      "history: feature = [S1 inserts 2 lines at the top of f.txt; S2 inserts a line into g.txt]; upstream adds another file; `git rebase -i main` with the two picks swapped (no conflict; likewise `squash` / `fixup`: a chain keeps only the attribution of its last original commit, so agent lines of an earlier member of the chain become human - chains whose agent lines are all in the chain's last commit agree with the wrapper and stay in random exploration) => in wrapper mode every AI line keeps its session, with git-ai installed as git hooks S2's line g.txt:2 is human",
      "c13.interactive_rebase_reorder_in_hooks_mode", ["todo_reorder", "todo_squash", "todo_fixup", "todo_edit"], affects=[])
open_("C06", "D9", "C06/stdout@--html-path status", [],
      "command line: `git --html-path status` (likewise --man-path / --info-path followed by a subcommand) => plain git prints the documentation path and exits 0; through the proxy the query option is dropped and `status` runs (different stdout). The pinned suite asserts the current behaviour (git_cli_arg_parsing::meta_html_path_then_real_command_meta_is_dropped_current_behavior), so the repair is not an unedited-suite-compatible fix",
      "c06.html_path_followed_by_command", ["tmpl:--html-path status"], affects=["C18"])
open_("C16", "D38", "C16/whitespace-reformat-changed-author@large", [],
      "input: a 3000-line file (about 55 KiB, every line attributed to one AI session) converted from LF to CRLF line endings by a person => only 2864 of 3000 lines keep their author (and for multibyte content some returned ranges do not sit on character boundaries): the large-input path of update_attributions is not conservative for whitespace-only reformats",
      "c16.crlf_flip_of_large_file", ["tracker_large_inputs"], affects=[])
open_("C16", "D61", "C16/unchanged-line-changed-author@split-move-apart", ["C16/moved-block-lost-author@split-move-together", "C16/bounds-update@split-move-multibyte"],
      "input (explicit texts in vf/witness/c16.py): one contiguous block of 3 lines of session A followed by 3 lines of session C; in one edit session A moves both halves below a run of 14 untouched lines of A, swapped. Landed apart: the untouched line of A right after the landed C half is re-attributed to C. Landed together (C half, then A half): the first line of the A half is attributed to C. The token diff slides the insertion boundary across tokens the moved block shares with its new neighbour, so a line that did not change, or a moved line, is credited to another session (about 5% of such inputs with mixed line prefixes; none with plain lines); with multi-byte line prefixes (é, á, 日本語, 🙂) the slid boundary can land inside a character, so a returned range is not on character boundaries",
      "c16.split_block_moved_apart_and_together", ["tracker_split_move_slide"], affects=[])
open_("C16", "D51", "C16/whitespace-reformat-changed-author@unterminated-quote", [],
      "input: line 1 (session C) contains a double quote that is never closed on the line (`# note \"unterminated \\`, likewise `\"é\\\"` whose closing quote is escaped), line 2 belongs to session A; the file is converted from LF to CRLF (or re-indented) by C => line 2 is re-attributed to C (the tokenizer lexes the unterminated literal across the line break, so a whitespace-only change falls inside a non-whitespace token)",
      "c16.eol_flip_after_unterminated_quote", ["tracker_unterminated_quote"], affects=[])
open_("C16", "D39", "C16/unchanged-line-changed-author@line2", [],
      "input: old text `++ tok396252_cc v587` (one AI line of session C, no final newline); session A inserts one line before and one line after it => the untouched line 2 is re-attributed to A (without a final newline the unchanged last line is not matched as equal and the token diff hands it to the editor; same root as D17)",
      "c16.insertions_around_last_line_without_newline", ["tracker_noeol_append"], affects=[])
open_("C17", "D37", "C17/remap-changed-log", [],
      "input: an authorship log listing a file whose name contains the text `\"base_commit_sha\":\"x\"` => try_remap_base_commit_sha_field / remap_note_content_for_target_commit rewrite the first textual occurrence, i.e. the path line, instead of the metadata field: the remapped note has a different file name and the old base",
      "c17.file_name_containing_base_commit_sha_field", ["path:json-field"], affects=["C05"])
fixed("C17", "D40", "^fix: a path line consisting of a single quote", "arbitrary note-like text containing a line that is a single double-quote character panicked deserialize_from_string (slice 1..0 in parse_attestation_section)", "c17.single_quote_path_line")
open_("C18", "D41", "C18/proxied-argv-differs", [],
      "command line: `git st` with alias.st='status -s' => the argv recorded by the git stand-in for the proxied call is `status -s`, not the user's `st` (the alias expansion computed to choose hooks is re-emitted). Observable consequence: for an alias whose value starts with an environment-changing global option (alias.np='--no-pager log', alias.stc='-C dir status') plain git refuses with `alias 'np' changes environment variables` (exit 128) while the proxy runs the expansion and exits 0",
      "c18.alias_is_handed_to_git_expanded", ["proxied_alias_expansion", "tmpl:np", "tmpl:stc"], affects=["C06"])
open_("C18", "D42", "C06/exit", ["C06/stdout", "C18/proxied-argv-differs"],
      "command line: `git -- status` => plain git fails with `unknown option: --` (exit 129); through the proxy the top-level `--` is dropped and `status` runs (exit 0, status output)",
      "c18.top_level_double_dash_is_swallowed", ["tmpl:--"], affects=["C06"])
open_("C18", "D44", "C06/exit", ["C06/stdout", "C18/proxied-argv-differs"],
      "command line: `git --version status -s` (likewise `-v ...`) => plain git runs `git version status -s` and fails with exit 129 (unknown switch); the proxy re-emits just `version`, drops every trailing argument and exits 0",
      "c18.version_option_drops_trailing_arguments", ["version_with_trailing_args", "tmpl:--version status", "tmpl:-v log"], affects=["C06"])
open_("C15", "D16", "C15/strict-notes-differ@commit1", ["C15/strict-notes-differ@commit2"],
      "history: commit 1 adds AI lines 5-6 to f.txt (S1), commit 2 adds AI line 2 to f.txt (S2), upstream touches only g.txt; `git rebase main` => the shortcut copies the commit-scoped notes (f.txt: S1 5-6 / f.txt: S2 2), the full replay writes cumulative notes (commit 1 also carries S2's prompt record, commit 2 also lists S1's lines 6-7 which it did not add); equal after projecting onto the lines each commit adds. Second face of the same design (counted, not re-reported): because the replay works backwards from the state of the last commit of the range, an agent line that commit k adds and a later commit of the range deletes again is missing from the replay's note for commit k, while the copied note lists it",
      "c15.two_commit_rebase_same_file_strict_vs_replay", ["slow_path_strict_notes"])
# ---------------------------------------------------------------- C02
open_("C02", "D20", "C03/unsound-note@f.txt:12", [],
      "history: feature branch = [person replaces 2 lines of f.txt by 1; AI session S1 modifies line 5 of f.txt]; upstream inserts 2 AI lines after line 1 and then 5 human lines after line 5 of f.txt; `git rebase main` (no conflict) => the rewritten AI commit's note lists line 12 (text written by a person) as S1: the full rebase replay mis-places attributions when upstream changed the same file",
      "c02.rebase_upstream_inserts_above_ai_line_after_human_commit", ["rebase_upstream_same_file", "rebase_conflicts"])
open_("C02", "D21", "C02/lost@f.txt:9", ["C02/lost@f.txt:10"],
      "history: feature = [S3 appends 2 lines to f.txt; S1 inserts a line in g.txt]; `git rebase -i main` with `edit` on the first commit; at the stop S2 modifies line 4 of f.txt and it is amended in; `rebase --continue` => S3's lines 9-10 of f.txt become human",
      "c02.rebase_edit_stop_amend_with_ai_edit", ["todo_edit"])
open_("C02", "D12", "C02/lost@f.txt:5", [],
      "history: commit adds AI lines 3-4 to f.txt; a person inserts one line at the top of f.txt (no checkpoint); `git commit --amend` => the amended note keeps line numbers 3-4: the second AI line (now line 5) becomes human (also: a person's line is listed when the shifted range covers it; same when an AI session only deletes lines before the amend)",
      "c02.amend_after_human_inserts_above_ai_lines", ["amend_human_edit"])
open_("C02", "D22", "C02/lost@f.txt:5", ["C02/lost@f.txt:6"],
      "history: `git cherry-pick -n <commit that added AI lines 5-6 of f.txt>` followed by `git commit` => both lines are human (the -n/--no-commit form is not handled by the cherry-pick hooks)",
      "c02.cherry_pick_no_commit_then_commit", ["cherry_pick_no_commit"])
open_("C02", "D23", "C02/lost@f.txt:1", ["C02/lost@f.txt:5"],
      "history: branch replaces line 1 and appends a line to f.txt (AI); main replaces line 1 (person); `git merge --squash br` stops on the conflict, the branch side is kept, `git commit` => the branch's AI lines 1 and 5 are human",
      "c02.squash_merge_with_conflict", ["squash_conflicts"])
open_("C02", "D2", "C02/lost@f.txt:9", ["C02/lost@f.txt:10"],
      "history: AI session appends 2 lines to f.txt; `git stash push`; a commit inserts 2 lines at the top of f.txt; `git stash pop`; commit => the AI lines (now 9-10) are human because restore_stash_attributions copies the stashed line numbers (7-8) verbatim",
      "c02.stash_pop_after_upstream_inserted_above", ["stash_between_same_file"],
      cells2=["stash-pop|above|*", "stash-pop|both|*", "stash-pop|below|last", "stash-apply|above|*", "stash-apply|both|*", "stash-apply|below|last"], cell_kinds2=["C02/lost"])
open_("C02", "D29", "C03/unsound-note@f.txt:4", ["C03/unsound-blame@f.txt:4"],
      "history: an AI session appends a token to line 4 of f.txt (written by a person), commit; the person replaces that token with an own one without any checkpoint; `git reset --soft HEAD~1`; commit => line 4, now entirely written by the person, is reported AI (reset, stash, switch and amend snapshot pending attribution without first recording the person's edits)",
      "c02.person_replaces_ai_token_then_reset_soft", ["unreported_human_edit_before_rewrite"])
open_("C02", "D30", "C03/unsound-note@b.txt:15", ["C03/unsound-blame@b.txt:15"],
      "history (recorded script witnesses/d30_c02_11_1257.json): S1 inserts 5 lines into b.txt, commit; a person appends a token to one of S1's lines (line then human), S1 inserts 2 more lines, commit; S1 replaces 2 lines; `git reset --soft HEAD~1`; S1 inserts a line; `git stash`; a commit to another file; `git stash pop`; commit => the line the person modified (b.txt:15) is reported S1 again: content-based reconstruction after reset re-derives an intra-line change by another author wrongly",
      "recorded:witnesses/d30_c02_11_1257.json", ["intraline_cross_author"])
fixed("C03", "D31", "^fix: forced checkout/switch discards", "`git switch --discard-changes <current branch>` / `git checkout -f` with HEAD unchanged threw pending AI edits away but kept their working log; lines a person then typed at the same positions were committed as AI", "c03.force_switch_to_current_branch_discards_pending")
fixed("C02", "D16a", "^fix: rebased commits no longer get notes", "after a plain two-commit rebase whose first commit did not touch f.txt, the note of the first rewritten commit listed the second commit's AI line of f.txt at its pre-rebase line number (a line the commit does not contain / a person's line)", "c02.rebase_first_commit_must_not_list_later_files")
fixed("C02", "D11", "^fix: reset --soft/--mixed keeps pending", "pending AI lines in f.txt were dropped by `git reset --soft|--mixed HEAD~1` when the un-done commit only touched g.txt (reconstruct_working_log_after_reset rebuilt only files changed in the un-done range and deleted the old working log)", "c02.reset_of_unrelated_commit_keeps_pending")
fixed("C02", "D25", "^fix: bare 'git stash' takes", "bare `git stash` (implicit push) skipped the pre-stash human checkpoint that `git stash push` runs, so a person's unreported insertion above pending AI lines left stale line numbers in the stash note and an AI line came back human after pop", "c02.bare_stash_after_unreported_human_edit")
open_("C02", "D58", "C03/unsound-note@a.txt:5", ["C03/unsound-blame@a.txt:5"],
      "history (recorded script witnesses/d58_c02_77_183.json, reduced by tools/ddmin.py): S1 creates a.txt with 5 lines, commit; S2 replaces lines 1-2, a person (checkpoint taken) replaces line 3 by three own lines, both left unstaged across two commits of nothing; `git reset --soft HEAD~2`; commit => the person's line 5 is committed as S1's (the original random script un-did, with reset --soft HEAD~2, two commits in which a person had deleted and replaced some of S1's lines of the kept commit): the reconstruction after a soft / mixed reset maps the kept commit's line numbers onto the new content wrongly when the un-done or pending work removes lines",
      "recorded:witnesses/d58_c02_77_183.json", ["reset_over_removed_lines"])
fixed("C02", "D64", "^fix: cherry-picked commits no longer get notes", "`git cherry-pick C1 C2` (C1: S1's line at the bottom of f.txt; C2: two lines at the top of f.txt and S1's three lines in g.txt) onto a branch that already has the two top lines, so that the shortcut declines: the full replay wrote, for the first new commit, a note that also listed g.txt lines 2-4 - lines that commit does not contain (a person's lines, or past the end of the file)", "c02.cherry_pick_range_first_commit_must_not_list_later_files")
fixed("C02", "D66", "^fix: CI rebase merge pairs original and rebased", "a pull request of two commits (S1 adds three lines to f.txt; a person deletes lines of g.txt) rebase-merged on the server by plain git: `git-ai ci local merge` paired the original commits (rev-list order, newest first) with the rebased ones (oldest first), so the AI commit's new note was the human commit's empty one and S1's lines 2-4 were blamed on a person", "c02.ci_rebase_merge_of_ai_commit_followed_by_human_commit")
fixed("C02", "D68", "^fix: stash pop keeps attribution that is already pending", "S1's lines in f.txt are stashed; S2 adds a line to g.txt and creates h.txt, only g.txt is committed (h.txt's two lines stay pending in INITIAL with S2's prompt record); `git stash pop` replaced INITIAL with the stash's attributions, so h.txt's lines were later committed as human (4 cells of the C02 table)", "c02.stash_pop_after_partial_commit_keeps_pending")
open_("C02", "D69", "C02/lost@new.txt:1", ["C02/lost@new.txt:2"],
      "history: an agent creates new.txt (two lines; the file is still untracked); `git branch other HEAD~1; git checkout -m other` (likewise `git switch -m`) carries the work tree to another commit; commit => the agent's lines are human: the -m path re-bases the attribution of tracked files only, and the working log of the commit that was left is deleted",
      "c02.checkout_m_to_another_commit_carrying_a_new_agent_file", ["switch_m_untracked_new_file"])
open_("C02", "D70", "C05/hash-without-prompt", [],
      "history (recorded script witnesses/d70_c02_3_352.json, reduced by tools/ddmin.py): an agent creates new30_s1.txt (3 lines, untracked); a commit of nothing turns them into INITIAL-only pending claims; `git stash push` (no -u, so the file is not stashed) ; `git add -A; git commit` => the note lists the session's hash for new30_s1.txt without a prompt record: the stash hook removes the pending claims' prompt records together with the working-log entries of files it did not stash",
      "recorded:witnesses/d70_c02_3_352.json", ["stash_with_untracked_initial_pending"])
fixed("C02", "D54", "^fix: CI rebase-merge detection", "a pull request of two commits (the first adds two AI lines at the end of f.txt, the second deletes them again) squash-merged on the server onto a base branch with earlier commits: `git-ai ci local merge` (likewise the GitHub CI run) took the squash for a rebase merge because it walked two commits back from the squash commit into the base branch; the squash commit got the note of the last original commit only, listing lines 8-9 of a 5-line file, and the note of an older base-branch commit was overwritten", "c02.ci_squash_merge_of_two_commits_on_moved_base")

open_("C18", "D49", "C18/alias-tokens-differ@trailing-backslash", [],
      "alias value ending in a lone backslash, e.g. alias.zz='log -1\\': git rejects the alias (`fatal: bad alias.zz string: cmdline ends with \\`); parse_alias_tokens keeps the backslash as a literal character and the proxy runs `log -1\\` (the pinned unit test parse_alias_tokens_trailing_backslash asserts the current behaviour, so the repair is not an unedited-suite-compatible fix)",
      "c18.alias_value_ending_in_backslash", ["alias_trailing_backslash"], affects=[])
fixed("C18", "D48", "^fix: alias tokenizer keeps empty quoted", "alias.zz=\"log ''\": git splits the value into `log` and an empty argument, parse_alias_tokens dropped the empty argument, and because the proxy hands git the expansion (D41) the proxied command differed from what git runs for the alias", "c18.alias_value_with_empty_quoted_argument")
fixed("C12", "D46", "^fix: notes search pins --no-color", "with color.ui=always (or color.grep=always) a rebase that takes the full replay (upstream changed the same file above the AI lines) wrote notes listing the session but with an empty prompts object: grep_ai_notes parsed coloured `git grep` output and found nothing (hash without prompt record; result depends on git configuration)", "c12.color_ui_always_hides_prompt_records_in_rebased_notes")
fixed("C03", "D47", "^fix: blaming an empty commit range", "main holds S1's lines 6-7 right below a person's line 5; on a branch the person (no agent) inserts a token into line 5 and deletes line 4; `git merge --squash br`; commit => the person's line (now line 4) was committed as S1's: the target side was blamed over the empty range X..X, for which git silently blames the work tree, so S1's line numbers were off by the lines removed above them", "c03.squash_person_modifies_line_above_ai_block")
fixed("C03", "D50", "^fix: a line rewritten on the merged side", "main holds session S2's lines 4-5 of f.txt (`# tokA ..`, `tokB ..`); on a branch session S1 replaces them by three lines, one of which also starts with `# `; `git merge --squash br`; commit => S1's line 5 was committed as S2's: on the favoured (target) side of merge_attributions_favoring_first the `# ` left over from S2's old line owned the rewritten line (placeholder author had the same timestamp) and outranked the branch side", "c03.squash_other_session_replaces_lines_with_shared_prefix")
fixed("C17", "D52", "^fix: file names that start with a double quote", "a tracked file whose name begins and ends with a double quote and contains no whitespace (`\"x\"`, `\"\"`) gets an AI line: the path line was written unquoted, every reader strips one quote from each end of a line that starts with a quote, and the note read back listed another file name (serialize -> parse was not the identity; the AI line was reported human)", "c17.file_name_wrapped_in_double_quotes")
fixed("C20", "D72", "^fix: checkpoint paths containing", "<repo>/vendor/inner is an independent repository nested in <repo>; an agent first reports an edit of <repo>/a.txt, then a report started in the inner repository names `../../dir/b.txt` (a file of the outer repository, by a relative path): exit 0 and `Cross-repo checkpoint ... completed`, but dir/b.txt was recorded nowhere (the un-normalised name vendor/inner/../../dir/b.txt matched nothing once the working log already held an agent checkpoint; the same for `sub/../a.txt` inside one repository)", "c20.cross_repo_report_with_dotdot_path_after_earlier_agent_report")
fixed("C01", "D73", "^fix: status post-filter lists untracked", "one agent report names 1001 new files under a directory that does not exist in HEAD; commit => the note listed no file at all and every line was blamed on a person (above 1000 paths `git status` runs without pathspecs and collapses the wholly untracked directory into one `? gen/` record that no reported path matched; with 1000 files every file was recorded)", "c01.agent_creates_more_than_1000_files_in_a_new_directory")
open_("C04", "D75", "C04/missing-from-note@f.txt:4", ["C03/unsound-note@f.txt:2", "C04/lost@f.txt:4", "C03/unsound-blame@f.txt:2"],
      "history: an agent adds two lines below line 1 of f.txt and a person adds one line above them; everything is staged; then, in the work tree only, the person deletes line 1 (not staged); `git commit` from the index => the note lists lines 2-3 instead of 3-4: the person's line is credited to the session and the agent's second line is lost. The work-tree -> commit line translation of a partial commit only subtracts lines the work tree ADDS relative to the commit; lines it REMOVES (an unstaged deletion, or the old side of a replacement hunk such as a staged line reworded next to left-out lines) are not added back. A pure 1:1 rewording of a staged line, and unstaged insertions alone, are handled",
      "c04.unstaged_deletion_above_committed_ai_lines", ["unstaged_replacement_hunks"], affects=[])
open_("C20", "D53", "C20/edited-file-not-recorded-in-its-repository@nested-repo", [],
      "payload: agent-v1 ai_agent report, hook started in <repo>, edited_filepaths = [<repo>/vendor/inner/a.txt] where vendor/inner is an independent repository nested in the outer work tree => exit 0, but the edit is recorded neither in the inner repository (which contains the file) nor anywhere else (files of sibling repositories are routed to their own repository; nested ones are taken for files of the outer work tree and then dropped)",
      "c20.file_of_nested_repository_edited_from_outer_repository", ["probe:nested-repo"], affects=[])
open_("C11", "D8", "C11/not-serializable@overlapping-journal-windows", [],
      "schedule: two `git-ai checkpoint` processes (agents S1 on a.txt, S2 on b.txt) both pass their read of .git/ai/working_logs/<HEAD>/checkpoints.jsonl before either writes it back (append_checkpoint and post-commit read-modify-write the journal with no lock) => the later write drops the other record and that agent's line is committed as human; identified by call site: a non-serializable outcome whose schedule has two lost-update windows of the unchanged code overlapping (agent report: entering append_checkpoint .. its journal write; git command: first journal read .. exit) is counted as this finding",
      "c11.two_checkpoints_both_read_before_either_writes", [])
open_("C11", "D74", "C11/not-serializable@report-straddles-git-command", [],
      "schedule: S1's reported line in a.txt is pending; `git-ai checkpoint` for b.txt (agent S2) starts and reads the journal - its list of files to re-examine includes a.txt; `git stash push -- a.txt` then runs to completion (attribution of a.txt goes into the stash note, its entries leave the working log, the file is reverted); the report continues, finds a.txt without agent lines and appends an empty entry for it, which later shadows what `git stash pop` restores => S1's line is committed as human (likewise around `reset --soft` and `commit --amend`: operations that rewrite the working log without moving HEAD); identified by call site: a non-serializable outcome whose schedule shows a git command exiting between an agent report's first journal read and its `append_checkpoint` (same missing mutual exclusion as D8; when HEAD moves in between it is D45)",
      "c11.report_read_before_stash_appended_after", [])
open_("C11", "D45", "C11/not-serializable@stale-base-append", [],
      "schedule: `git-ai checkpoint` for b.txt starts (resolves HEAD) while `git commit` of a.txt is still running and performs its journal append only after the commit process exits => the record lands in working_logs/<old HEAD>, which nothing reads again; S2's line is committed as human; identified by call site: non-serializable outcome, no overlapping windows, and the trace shows a checkpoints_write into the working log of a commit that is not HEAD",
      "c11.checkpoint_started_before_commit_lands_after", [])

json.dump(dict(comment="Genuine defects of git-ai recorded rather than repaired (status open) or repaired by a `fix:` commit in /repo (status fixed; "
               "a fixed entry suppresses nothing: its witness must pass). Open entries are matched only against their own pinned witness history "
               "(vf/witness/*), never against anything found at random (exception, stated in the entries: the two C11 scheduling findings are identified by call site); their trigger_off flags remove the failing shape from random exploration "
               "of the listed properties. This file is never written at run time (source: tools/known_src.py).",
               findings=F), open(os.path.join(HERE, "known_findings.json"), "w"), indent=1)
print(len(F), "entries")
