#!/bin/sh
# Checks that every seeded/<id>/patch.diff still applies to /repo's HEAD (fix commits move code; ported patches keep the author's
# original as patch.at-<sha>.diff). Uses a scratch worktree outside /repo and /verif.
WT=/tmp/seeded-apply/wt
mkdir -p /tmp/seeded-apply
[ -d $WT ] || git -C /repo worktree add -q --detach $WT HEAD
git -C $WT checkout -q -- . ; git -C $WT clean -fdq; git -C $WT checkout -q --detach "$(git -C /repo rev-parse HEAD)"
bad=0
for m in /verif/seeded/*/patch.diff; do
  git -C $WT apply --check "$m" 2>/dev/null || { echo "DOES NOT APPLY: $m"; bad=1; }
done
git -C /repo worktree remove --force $WT
[ $bad = 0 ] && echo "all $(ls /verif/seeded | wc -l) seeded patches apply to $(git -C /repo rev-parse --short HEAD)"
exit $bad
