#!/usr/bin/env python3
import json,glob,sys
prop=sys.argv[1]; which=sys.argv[2:] 
for p in sorted(glob.glob('/verif/replays/%s-*.json'%prop)):
    if which and not any(p.endswith('-%s.json'%w) for w in which): continue
    j=json.load(open(p))
    print('=====',p, j.get('case',{}).get('index'))
    for l in j.get('log') or []: print('  ',l)
    for v in j.get('violations',[])[:4]: print('  VIOL',json.dumps(v,ensure_ascii=False)[:400])
