#!/usr/bin/env python3
"""Runs every pinned witness of known_findings.json once and prints whether it still reproduces (open) / passes (fixed)."""
import sys, os, json, importlib
sys.path.insert(0, os.path.dirname(os.path.dirname(os.path.abspath(__file__))))
from vf import runner as R
K = json.load(open(os.path.join(R.VERIF, "known_findings.json")))["findings"]
only = set(sys.argv[1:])
for e in K:
    if only and e["id"] not in only and e["property"] not in only:
        continue
    w = e.get("witness")
    try:
        if w.startswith("recorded:"):
            from vf import recorded
            kinds, _ = recorded.replay_file(os.path.join(R.VERIF, w[len("recorded:"):]))
        else:
            m, fn = w.rsplit(".", 1)
            kinds, _ = getattr(importlib.import_module("vf.witness." + m), fn)()
    except Exception as ex:
        kinds = ["ERROR " + repr(ex)[:200]]
    st = e["status"]
    verdict = ("reproduces" if e["signature"] in kinds else ("OTHER-KINDS" if kinds else "SILENT")) if st == "open" else ("passes" if not kinds else "RETURNED")
    print("%-5s %-4s %-6s %-12s %s" % (e["id"], e["property"], st, verdict, kinds[:4]))
