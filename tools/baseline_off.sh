#!/bin/sh
# Runs the pinned baseline suite of /repo with the verif feature OFF (it is not a default feature)
# and compares the junit result with stable_pass of /root/.vp/BASELINE.json.
set -u
cd /repo/$(cat /w/out/cargo_root.txt 2>/dev/null || echo .)
cargo nextest run --workspace --no-fail-fast --tool-config-file pb:/w/lib/nextest.toml --profile pb --test-threads 8 --offline >/tmp/verif-baseline.log 2>&1
python3 - <<'PY'
import json, sys, xml.etree.ElementTree as ET
base = json.load(open("/root/.vp/BASELINE.json"))
want = set(base["stable_pass"])
import glob, os
root = "/repo/" + (open("/w/out/cargo_root.txt").read().strip() if os.path.exists("/w/out/cargo_root.txt") else ".")
t = ET.parse(os.path.join(root, "target/nextest/pb/junit.xml"))
ok = set()
for ts in t.getroot().iter("testsuite"):
    for tc in ts.iter("testcase"):
        if tc.find("failure") is None and tc.find("error") is None and tc.find("skipped") is None:
            ok.add("%s::%s" % (tc.get("classname"), tc.get("name")))
missing = sorted(want - ok)
print("baseline stable_pass=%d passed_now=%d missing=%d" % (len(want), len(want & ok), len(missing)))
for m in missing[:40]: print("  NOT PASSING:", m)
sys.exit(1 if missing else 0)
PY
