#!/bin/sh
# usage: subset_tests.sh '<nextest filter expr>'  -- runs a subset of the pinned suite and compares with stable_pass
cd /repo
rm -f /repo/target/nextest/pb/junit.xml
cargo nextest run --offline --no-fail-fast --tool-config-file pb:/w/lib/nextest.toml --profile pb --test-threads 12 -E "$1" >/tmp/verif-subset.log 2>&1
if grep -q '^error: command .*--no-run' /tmp/verif-subset.log || [ ! -f /repo/target/nextest/pb/junit.xml ]; then echo 'TEST BUILD FAILED'; grep -n '^error' -A8 /tmp/verif-subset.log | head -40; exit 2; fi
python3 - <<'PY'
import json, xml.etree.ElementTree as ET
base=set(json.load(open('/root/.vp/BASELINE.json'))['stable_pass'])
t=ET.parse('/repo/target/nextest/pb/junit.xml')
bad=[];tot=0;okb=0
for ts in t.getroot().iter('testsuite'):
    for tc in ts.iter('testcase'):
        tot+=1
        name="%s::%s"%(tc.get('classname'),tc.get('name'))
        failed = tc.find('failure') is not None or tc.find('error') is not None
        if name in base:
            if failed: bad.append(name)
            else: okb+=1
print(tot,'ran;',okb,'stable tests pass; stable tests FAILING:',len(bad))
for b in bad[:30]: print('  ',b)
PY
