#!/usr/bin/env python3
"""Re-run one generated case and store its concrete recording as a witness file:
   tools/capture.py <prop> <seed> <index> <flags,comma> <out.json> [extra-case-json]"""
import sys, os, json, importlib
sys.path.insert(0, os.path.dirname(os.path.dirname(os.path.abspath(__file__))))
prop, seed, index, flags, out = sys.argv[1], int(sys.argv[2]), int(sys.argv[3]), sys.argv[4], sys.argv[5]
mod = importlib.import_module("vf.props." + prop.lower())
case = dict(seed=seed, index=index, flags_off=[f for f in flags.split(",") if f], tier="quick")
if len(sys.argv) > 6:
    case.update(json.loads(sys.argv[6]))
r = mod.run_case(case)
print("violations:", [v["kind"] for v in r["viol"]][:6])
for l in r.get("log") or []:
    if l[0] != "git" or l[1] != "add": print("  ", l)
if r.get("recording"):
    json.dump(dict(source=dict(prop=prop, case=case), log=r["log"], violations=r["viol"][:6], recording=r["recording"]), open(out, "w"), indent=0, ensure_ascii=False, default=str)
    print("saved", out)
