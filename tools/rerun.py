#!/usr/bin/env python3
"""Re-run one case of a property driver, keeping the world: tools/rerun.py C01 <seed> <index> [flags_off,...]"""
import sys, os, json, importlib
sys.path.insert(0, os.path.dirname(os.path.dirname(os.path.abspath(__file__))))
from vf import engine
prop, seed, index = sys.argv[1], int(sys.argv[2]), int(sys.argv[3])
flags = sys.argv[4].split(",") if len(sys.argv) > 4 and sys.argv[4] else []
engine.Scenario.destroy = lambda self: print("WORLD", self.w.root)
mod = importlib.import_module("vf.props." + prop.lower())
case = dict(seed=seed, index=index, flags_off=flags)
if len(sys.argv) > 5:
    case.update(json.loads(sys.argv[5]))
r = mod.run_case(case)
for l in r.get("log") or []: print(l)
for v in r["viol"][:10]: print("VIOL", json.dumps(v, ensure_ascii=False)[:500])
print(r.get("stats"), r.get("inconclusive"))
