#!/bin/sh
# usage: tools/mutant_run.sh <patch.diff> <out-dir> <prop> [<prop> ...]
# Runs the quick checks of the given properties against a scratch worktree of /repo with the patch applied
# (VERIF_REPO / VERIF_BUILD_DIR overrides), without touching /repo or /verif/evidence.
set -u
PATCH=$1; OUT=$2; shift 2
WT=/tmp/mutrun/wt
mkdir -p "$OUT" /tmp/mutrun
if [ ! -d $WT ]; then git -C /repo worktree add -q --detach $WT HEAD; fi
git -C $WT checkout -q -- . ; git -C $WT clean -fdq
git -C $WT checkout -q --detach "$(git -C /repo rev-parse HEAD)" || { echo "CANNOT CHECK OUT /repo HEAD IN $WT"; exit 3; }
git -C $WT apply "$PATCH" || { echo "PATCH DOES NOT APPLY"; exit 3; }
export VERIF_REPO=$WT VERIF_BUILD_DIR=/tmp/mutrun/build VERIF_EVIDENCE_DIR="$OUT/evidence" VERIF_REPLAYS_DIR="$OUT/replays" VERIF_SCRATCH=/dev/shm/vf-mutrun
for p in "$@"; do
  echo "=== $p"
  ( cd /verif && ./check $p --tier quick --seed ${VERIF_SEED:-1} ) > "$OUT/$p.log" 2>&1
  echo "exit=$?" >> "$OUT/$p.log"
  grep -E "^VIOLATION|exit=|BUILD FAILED|^\[$p\]|kind=" "$OUT/$p.log" | cut -c1-200 | head -8
done
git -C $WT checkout -q -- . ; git -C $WT clean -fdq
rm -rf /dev/shm/vf-mutrun
