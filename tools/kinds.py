#!/usr/bin/env python3
import json,glob,sys,collections
prop=sys.argv[1]; n=int(sys.argv[2]) if len(sys.argv)>2 else 6
for p in sorted(glob.glob('/verif/replays/%s-*.json'%prop))[:n]:
    j=json.load(open(p)); print(p.split('/')[-1], (j.get('case') or {}).get('index'))
    for v in j.get('violations',[])[:2]: print('  ',json.dumps(v,ensure_ascii=False)[:int(sys.argv[3]) if len(sys.argv)>3 else 700])
