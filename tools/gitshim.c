/* gitshim: recording / fault-injecting stand-in for git.
 *
 * git-ai spawns every git process (the proxied user command and all of its own
 * internal calls) through config.json:git_path.  This program is installed
 * there.  Without GITSHIM_LOG it simply execs the real git.
 *
 *   GITSHIM_REAL      path of the real git (default /usr/bin/git)
 *   GITSHIM_LOG       append one JSON line per call: {pid,ppid,n,proxied,argv,cwd}
 *   GITSHIM_COUNTER   file holding the number of internal calls seen so far
 *   GITSHIM_FAIL_AT   k: inject a fault at the k-th internal call
 *   GITSHIM_MODE      fail | fail-after | kill   (default fail)
 *   GITSHIM_MATCH     optional substring that argv (joined by ' ') must contain
 *                     for the call to be counted as a fault candidate
 *
 *   GITSHIM_SYNC_DIR / GITSHIM_SYNC_MATCH
 *                     sync points between git-ai's internal git calls (C11): an internal call
 *                     whose argv (joined by ' ') contains one of the comma-separated substrings
 *                     writes <dir>/<ppid>.<seq>.shim:<substring>.wait and waits (30 s bound) for the
 *                     controller to create the matching .go file before the real git starts -
 *                     the same protocol as the in-process sync points, keyed by the pid of the
 *                     git-ai process that spawned the call
 *
 * The proxied call is recognised by GITAI_SKIP_MANAGED_HOOKS=1, which git-ai
 * sets only on it; it is logged (n = 0) but never counted or failed.
 */
#include <errno.h>
#include <fcntl.h>
#include <signal.h>
#include <stdio.h>
#include <stdlib.h>
#include <string.h>
#include <sys/file.h>
#include <sys/types.h>
#include <sys/wait.h>
#include <unistd.h>

static void json_str(FILE *f, const char *s) {
    fputc('"', f);
    for (const unsigned char *p = (const unsigned char *)s; *p; p++) {
        if (*p == '"' || *p == '\\') { fputc('\\', f); fputc(*p, f); }
        else if (*p < 0x20) fprintf(f, "\\u%04x", *p);
        else fputc(*p, f);
    }
    fputc('"', f);
}

static long bump_counter(const char *path) {
    int fd = open(path, O_RDWR | O_CREAT, 0644);
    if (fd < 0) return -1;
    flock(fd, LOCK_EX);
    char buf[64]; long n = 0;
    ssize_t r = pread(fd, buf, sizeof buf - 1, 0);
    if (r > 0) { buf[r] = 0; n = atol(buf); }
    n++;
    int len = snprintf(buf, sizeof buf, "%ld\n", n);
    if (ftruncate(fd, 0) == 0) { ssize_t w = pwrite(fd, buf, len, 0); (void)w; }
    flock(fd, LOCK_UN);
    close(fd);
    return n;
}

int main(int argc, char **argv) {
    const char *real = getenv("GITSHIM_REAL");
    if (!real || !*real) real = "/usr/bin/git";
    const char *logp = getenv("GITSHIM_LOG");
    const char *ctr = getenv("GITSHIM_COUNTER");
    const char *skip = getenv("GITAI_SKIP_MANAGED_HOOKS");
    int proxied = skip && strcmp(skip, "1") == 0;
    long n = 0;
    int candidate = !proxied;
    const char *match = getenv("GITSHIM_MATCH");
    if (candidate && match && *match) {
        size_t tot = 1;
        for (int i = 1; i < argc; i++) tot += strlen(argv[i]) + 1;
        char *joined = malloc(tot); joined[0] = 0;
        for (int i = 1; i < argc; i++) { strcat(joined, argv[i]); strcat(joined, " "); }
        if (!strstr(joined, match)) candidate = 0;
        free(joined);
    }
    if (candidate && ctr && *ctr) n = bump_counter(ctr);
    if (logp && *logp) {
        char *mem = NULL; size_t sz = 0;
        FILE *m = open_memstream(&mem, &sz);
        char cwd[4096]; if (!getcwd(cwd, sizeof cwd)) strcpy(cwd, "?");
        fprintf(m, "{\"pid\":%d,\"ppid\":%d,\"n\":%ld,\"proxied\":%s,\"cwd\":", (int)getpid(), (int)getppid(), n, proxied ? "true" : "false");
        json_str(m, cwd);
        fprintf(m, ",\"argv\":[");
        for (int i = 1; i < argc; i++) { if (i > 1) fputc(',', m); json_str(m, argv[i]); }
        fprintf(m, "]}\n");
        fclose(m);
        int fd = open(logp, O_WRONLY | O_APPEND | O_CREAT, 0644);
        if (fd >= 0) { ssize_t w = write(fd, mem, sz); (void)w; close(fd); }
        free(mem);
    }
    const char *sdir = getenv("GITSHIM_SYNC_DIR");
    const char *smatch = getenv("GITSHIM_SYNC_MATCH");
    if (!proxied && sdir && *sdir && smatch && *smatch) {
        size_t tot = 2;
        for (int i = 1; i < argc; i++) tot += strlen(argv[i]) + 1;
        char *joined = malloc(tot); joined[0] = 0;
        for (int i = 1; i < argc; i++) { strcat(joined, argv[i]); strcat(joined, " "); }
        char *pats = strdup(smatch);
        for (char *tok = strtok(pats, ","); tok; tok = strtok(NULL, ",")) {
            if (!*tok || !strstr(joined, tok)) continue;
            char label[64]; size_t k = 0;
            for (const char *q = tok; *q && k < sizeof label - 1; q++) label[k++] = (*q == ' ' || *q == '/' || *q == '.') ? '_' : *q;
            label[k] = 0;
            char base[4300];
            snprintf(base, sizeof base, "%s/%d.%d.shim:%s", sdir, (int)getppid(), 1000000 + (int)getpid(), label);
            char waitf[4400], gof[4400];
            snprintf(waitf, sizeof waitf, "%s.wait", base);
            snprintf(gof, sizeof gof, "%s.go", base);
            int fd = open(waitf, O_WRONLY | O_CREAT, 0644);
            if (fd >= 0) {
                close(fd);
                for (int i = 0; i < 15000 && access(gof, F_OK) != 0; i++) usleep(2000);
                unlink(waitf); unlink(gof);
            }
            break;
        }
        free(pats); free(joined);
    }
    const char *at = getenv("GITSHIM_FAIL_AT");
    if (candidate && at && *at && n > 0 && atol(at) == n) {
        const char *mode = getenv("GITSHIM_MODE");
        if (!mode || !*mode) mode = "fail";
        if (strcmp(mode, "kill") == 0) {
            kill(getppid(), SIGKILL);
            _exit(128);
        }
        if (strcmp(mode, "fail-after") == 0) {
            pid_t c = fork();
            if (c == 0) { argv[0] = (char *)real; execv(real, argv); _exit(127); }
            int st; waitpid(c, &st, 0);
            fprintf(stderr, "fatal: injected failure after call %ld (gitshim)\n", n);
            return 128;
        }
        fprintf(stderr, "fatal: injected failure at call %ld (gitshim)\n", n);
        return 128;
    }
    argv[0] = (char *)real;
    execv(real, argv);
    fprintf(stderr, "gitshim: cannot exec %s: %s\n", real, strerror(errno));
    return 127;
}
