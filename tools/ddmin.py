#!/usr/bin/env python3
"""Delta-debugging of a recorded scenario (replay file or witnesses/*.json) that keeps the script protocol-valid.

usage: tools/ddmin.py <replay.json> <violation-kind-prefix> [out.json] [--same-text] [--drop-human-ckpts]

The recorded actions are grouped into units: an agent edit (pre-edit human checkpoint, file write, post-edit AI checkpoint), a person's
edit (optional IDE-style checkpoint + write), a git command, a stand-alone checkpoint.  Units are removed while the replay still shows a
violation whose kind starts with the prefix (with --same-text: about the same line text as in the original).  File writes are whole-file
snapshots; when a unit is removed the lines it introduced (first write that contains their content key) are dropped from every later
snapshot, so every remaining line is still introduced by the unit, and reported by the author, the ledger names: the reduced script
is a valid history, not an artefact such as an agent checkpoint claiming a person's unreported text."""
import json
import os
import re
import sys
from concurrent.futures import ProcessPoolExecutor

sys.path.insert(0, os.path.dirname(os.path.dirname(os.path.abspath(__file__))))
from vf import recorded  # noqa: E402

WS = re.compile(r"\s+")


def key(l):
    return WS.sub("", l)


def ck(e):
    if e["k"] != "ga" or e["args"][:1] != ["checkpoint"]:
        return None
    try:
        pl = json.loads(e["args"][3])
        return pl["type"], tuple(pl.get("edited_filepaths") or pl.get("will_edit_filepaths") or ())
    except Exception:
        return None


def units_of(entries):
    """Group entries into removable units (lists of indices)."""
    us = []
    i = 0
    n = len(entries)
    while i < n:
        e = entries[i]
        c = ck(e)
        if c and c[0] == "human":
            j = i
            while j < n and ck(entries[j]) and ck(entries[j])[0] == "human":
                j += 1
            if j < n and entries[j]["k"] == "write":
                k = j + 1
                while k < n and (entries[k]["k"] == "write" or (ck(entries[k]) and ck(entries[k])[0] == "ai_agent")):
                    k += 1
                us.append(("edit", list(range(i, k))))
                i = k
                continue
            us.append(("hckpt", list(range(i, j))))
            i = j
            continue
        if e["k"] == "write":
            k = i + 1
            while k < n and ck(entries[k]) and ck(entries[k])[0] == "ai_agent":
                k += 1
            us.append(("edit", list(range(i, k))))
            i = k
            continue
        us.append((e["k"], [i]))
        i += 1
    return us


def build(entries, units, keep, introduced_by):
    removed_keys = set()
    for ui, (_, idx) in enumerate(units):
        if ui not in keep:
            for i in idx:
                removed_keys |= introduced_by.get(i, set())
    out = []
    for ui, (_, idx) in enumerate(units):
        if ui not in keep:
            continue
        for i in idx:
            e = entries[i]
            if e["k"] == "write" and "data" in e and removed_keys:
                lines = e["data"].split("\n")
                kept = [l for l in lines if key(l.rstrip("\r")) == "" or key(l.rstrip("\r")) not in removed_keys]
                e = dict(e, data="\n".join(kept))
            out.append(e)
    return out


def fails(args):
    rec, entries, prefix, text = args
    r = dict(rec)
    r["rec"] = entries
    try:
        kinds, viols = recorded.replay(r)
    except Exception:
        return False
    if text is not None:
        return any(v["kind"].startswith(prefix) and key(v.get("text", "")) == text for v in viols) or \
            (any(k.startswith(prefix) for k in kinds) and not any("text" in v for v in viols))
    return any(k.startswith(prefix) for k in kinds)


def describe(e):
    c = ck(e)
    if c:
        return "ckpt %s %s" % (c[0], list(c[1]))
    if e["k"] == "ga":
        return "git-ai " + " ".join(e["args"])[:140]
    if e["k"] == "git":
        return ("git " if not e.get("plain") else "plain-git ") + " ".join(e["args"])[:160]
    if e["k"] == "write":
        return "write %s (%d lines)" % (e["f"], len((e.get("data") or "").splitlines()))
    return e["k"] + " " + str(e.get("what", ""))


def main():
    args = [a for a in sys.argv[1:] if not a.startswith("--")]
    same_text = "--same-text" in sys.argv
    path, prefix = args[0], args[1]
    j = json.load(open(path))
    rec = j.get("recording") or j
    entries = [e for e in rec["rec"] if not (e["k"] == "check" and e.get("what") == "commit_exact")]
    tail = []
    while entries and entries[-1]["k"] == "check":
        tail.insert(0, entries.pop())
    if "--stats" in sys.argv:
        tail = [dict(k="check", what="stats_all")]
    if not tail:
        tail = [dict(k="check", what="notes", where="dd"), dict(k="check", what="blame_tip", where="dd", complete=False, files=None, rule="C03")]
    entries = [e for e in entries if e["k"] != "check"]
    head = entries[:1] if entries and entries[0]["k"] == "git" and entries[0]["args"][:1] == ["init"] else []
    entries = entries[len(head):]
    seen = set()
    introduced_by = {}
    for i, e in enumerate(entries):
        if e["k"] == "write" and "data" in e:
            ks = {key(l.rstrip("\r")) for l in e["data"].split("\n")} - {""}
            introduced_by[i] = ks - seen
            seen |= ks
    units = units_of(entries)
    if "--drop-human-ckpts" not in sys.argv:
        fixed = {ui for ui, (k, _) in enumerate(units) if k == "hckpt"}
    else:
        fixed = set()
    # direct git-ai commands (ci local merge, squash-authorship): the operation under test, never removed
    fixed |= {ui for ui, (k, _) in enumerate(units) if k == "ga"}
    text = None
    if same_text:
        _, viols = recorded.replay(dict(rec, rec=head + entries + tail))
        t = [v for v in viols if v["kind"].startswith(prefix) and "text" in v]
        text = key(t[0]["text"]) if t else None
        print("matching violations about line text key:", text)
    allu = set(range(len(units)))
    assert fails((rec, head + build(entries, units, allu, introduced_by) + tail, prefix, text)), "the full recording does not show %s*" % prefix
    cand_units = sorted(allu - fixed)
    keep = set(allu)
    n = 2
    pool = ProcessPoolExecutor(max_workers=int(os.environ.get("DD_JOBS", "8")))
    while len(cand_units) >= 1:
        size = max(1, len(cand_units) // n)
        chunks = [cand_units[i:i + size] for i in range(0, len(cand_units), size)]
        cands = [keep - set(c) for c in chunks]
        res = list(pool.map(fails, [(rec, head + build(entries, units, c, introduced_by) + tail, prefix, text) for c in cands]))
        hit = next((i for i, r in enumerate(res) if r), None)
        if hit is not None:
            keep = cands[hit]
            cand_units = [u for u in cand_units if u in keep]
            n = max(n - 1, 2)
            print("  reduced to %d units" % len(keep), flush=True)
        else:
            if size == 1:
                break
            n = min(len(cand_units), n * 2)
    final = build(entries, units, keep, introduced_by)
    print("minimal script (%d units, %d actions):" % (len(keep), len(final)))
    prev = {}
    import difflib
    for e in final:
        print("  ", describe(e))
        if e["k"] == "write":
            new = (e.get("data") or "").splitlines()
            for l in difflib.unified_diff(prev.get(e["f"], []), new, lineterm="", n=0):
                if l.startswith("@@") or not (l.startswith("--- ") or l.startswith("+++ ")) or l[4:5] in ("", " "):
                    print("        ", l[:150])
            prev[e["f"]] = new
    if len(args) > 2:
        out = dict(rec)
        out["rec"] = head + final + tail
        json.dump(out, open(args[2], "w"))
        print("written", args[2])


if __name__ == "__main__":
    main()
