#!/bin/sh
# usage: tools/confirm_mutant.sh <id> <out-dir-with-patch.diff-and-demo> "<nextest filter expr>"
# Confirms in a scratch worktree (outside /repo and /verif): the patch applies and compiles, the selected existing tests that
# are in the pinned stable_pass set still pass, the demo passes on the unchanged binary and fails on the changed one.
set -u
ID=$1; OUT=$2; FILTER=$3
WT=/tmp/confirm/wt; export CARGO_TARGET_DIR=/tmp/confirm/target
mkdir -p /tmp/confirm
if [ ! -d $WT ]; then git -C /repo worktree add -q --detach $WT HEAD; fi
git -C $WT checkout -q --detach "$(git -C /repo rev-parse HEAD)"; git -C $WT checkout -q -- .; git -C $WT clean -fdq
cd $WT
if [ ! -x /tmp/confirm/git-ai.orig ] || [ "$(cat /tmp/confirm/orig.rev 2>/dev/null)" != "$(git rev-parse HEAD)" ]; then
  cargo build --offline --bin git-ai >/tmp/confirm/build-orig.log 2>&1 || { echo "ORIG BUILD FAILED"; exit 2; }
  cp $CARGO_TARGET_DIR/debug/git-ai /tmp/confirm/git-ai.orig; git rev-parse HEAD > /tmp/confirm/orig.rev
fi
git apply "$OUT/patch.diff" || { echo "PATCH DOES NOT APPLY"; exit 3; }
cargo build --offline --bin git-ai >/tmp/confirm/build-mut.log 2>&1 || { echo "MUTANT DOES NOT COMPILE"; tail -5 /tmp/confirm/build-mut.log; exit 4; }
cp $CARGO_TARGET_DIR/debug/git-ai /tmp/confirm/git-ai.$ID
DEMO=$(ls "$OUT"/demo.* | head -1)
case "$DEMO" in *.py) RUN="python3 $DEMO";; *) RUN="bash $DEMO";; esac
$RUN /tmp/confirm/git-ai.orig >/tmp/confirm/demo-orig.log 2>&1; RO=$?
$RUN /tmp/confirm/git-ai.$ID >/tmp/confirm/demo-mut.log 2>&1; RM=$?
echo "demo unchanged exit=$RO changed exit=$RM"
rm -f /tmp/confirm/wt/target/nextest/pb/junit.xml
cargo nextest run --offline --no-fail-fast --tool-config-file pb:/w/lib/nextest.toml --profile pb --test-threads 6 -E "$FILTER" >/tmp/confirm/tests.log 2>&1
if grep -q "^error: command .*--no-run" /tmp/confirm/tests.log || [ ! -f /tmp/confirm/wt/target/nextest/pb/junit.xml ]; then echo "TEST BUILD FAILED WITH THE CHANGE"; grep -n "^error" -A6 /tmp/confirm/tests.log | head -30; git checkout -q -- .; exit 5; fi
python3 - <<PY
import json, xml.etree.ElementTree as ET
base=set(json.load(open('/root/.vp/BASELINE.json'))['stable_pass'])
t=ET.parse('/tmp/confirm/wt/target/nextest/pb/junit.xml')
bad=[];tot=0;okb=0
for ts in t.getroot().iter('testsuite'):
    for tc in ts.iter('testcase'):
        tot+=1
        name="%s::%s"%(tc.get('classname'),tc.get('name'))
        failed = tc.find('failure') is not None or tc.find('error') is not None
        if name in base:
            if failed: bad.append(name)
            else: okb+=1
print("tests:",tot,"ran;",okb,"stable tests pass; stable tests FAILING:",len(bad), bad[:10])
PY
git checkout -q -- .
rm -f /tmp/confirm/git-ai.$ID
