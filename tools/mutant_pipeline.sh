#!/bin/sh
# usage: tools/mutant_pipeline.sh <prop> <round e.g. m4> "<nextest filter for confirmation>"
# Collects a sub-agent's output from /tmp/mut/<prop>-out into seeded/<prop>-<round>/, removes the agent's worktree,
# confirms the change (tools/confirm_mutant.sh) and runs the property's quick check against it (tools/mutant_run.sh).
set -u
P=$1; R=$2; F=$3
D=/verif/seeded/$P-$R
mkdir -p $D
cp /tmp/mut/$P-out/patch.diff /tmp/mut/$P-out/meta.json $D/ 2>/dev/null
cp /tmp/mut/$P-out/demo.* $D/ 2>/dev/null
git -C /repo worktree remove --force /tmp/mut/$P 2>/dev/null
echo "== confirm $P-$R"
/verif/tools/confirm_mutant.sh $P $D "$F" 2>&1 | tail -3
echo "== run $P-$R"
/verif/tools/mutant_run.sh $D/patch.diff /tmp/m3out/$P-$R $P 2>&1 | cut -c1-220
