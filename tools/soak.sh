#!/bin/sh
# usage: tools/soak.sh "<props>" "<seeds>" <budget_s>   (uses the already built binary in /verif/.build; no rebuild)
export VERIF_BUILD_DIR=/verif/.build
for s in $2; do for p in $1; do
  VERIF_BUDGET_S=$3 ./check $p --seed $s --no-build 2>&1 | grep -E "^\[$p\]|VIOLATION|kind=|INCONCLUSIVE" | cut -c1-160
  for f in replays/$p-*.json; do [ -f "$f" ] && cp "$f" "soak-$p-$s-$(basename $f)"; done
done; done
