#!/usr/bin/env python3
"""Regenerate MANIFEST.json from the table below (keeps it valid at all times)."""
import json, os, subprocess
HERE = os.path.dirname(os.path.dirname(os.path.abspath(__file__)))
props = [json.loads(l) for l in open(os.path.join(HERE, "properties.jsonl"))]
CHECKS = {}
exec(open(os.path.join(HERE, "tools", "manifest_table.py")).read())
hooks = subprocess.run(["git", "-C", "/repo", "log", "--format=%H", "--grep=^verif hooks:"], capture_output=True, text=True).stdout.split()
m = dict(version=1, setup_cmd="./check --setup",
         hooks=dict(guard="cargo feature `verif` (off by default)",
                    enable="cargo build --offline --bin git-ai --features verif (CARGO_TARGET_DIR=/verif/.build/target), run by every check",
                    baseline_off_cmd="./tools/baseline_off.sh", source_commits=hooks[::-1], add_only=True),
         engines=ENGINES, checks=[], not_applicable=[],
         notes="All verdicts come from oracles observing executions of the real git-ai binary / library built from /repo's working tree. See DESIGN.md.")
for p in props:
    pid = p["id"]
    if pid in CHECKS:
        c = CHECKS[pid]
        m["checks"].append(dict(property_id=pid, quick_cmd="./check %s --tier quick" % pid, thorough_cmd="./check %s --tier thorough" % pid,
                                evidence_file="/verif/evidence/%s.json" % pid, replay_cmd_template="./check %s --replay {path}" % pid,
                                engine=c["engine"], level_claimed=dict(category=c["level"], text=c["text"], design_ref=c["ref"]),
                                level_note=c["note"], technique=c["technique"]))
    else:
        m["not_applicable"].append(dict(property_id=pid, reason=PENDING.get(pid, "check not built yet (work in progress); runtime monitoring applies, see DESIGN.md section 3")))
json.dump(m, open(os.path.join(HERE, "MANIFEST.json"), "w"), indent=1)
print("checks:", [c["property_id"] for c in m["checks"]], "n/a:", [c["property_id"] for c in m["not_applicable"]])
