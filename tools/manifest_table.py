ENGINES = [
 dict(name="scenario", path="vf/engine.py", serves_properties=["C01","C02","C03","C04","C05"], kind_free_text="seeded random histories driven through the real git-ai binary in isolated worlds; ground-truth ledger on unique line tokens; global C03/C05 monitors after every step"),
]
PENDING = {}
CHECKS["C01"] = dict(engine="scenario", level="exploration", ref="DESIGN.md §3 C01, §2.3",
  technique="runtime monitoring: ledger oracle over notes and blame of generated commit histories",
  text="Hundreds (quick) to thousands (thorough) of seeded random edit scripts are run against the real binary; after every commit the note and `git-ai blame --json` are compared line by line with a content-keyed ground-truth ledger that shares nothing with git-ai's diffing. Exploration is the right level: the property quantifies over all contents/interleavings/positions, which can only be sampled; the oracle is exact for unique-token lines.",
  note="Trusts installed git 2.39.5 for `diff -U0`/cat-file; exact only for unique-token lines (decoy blank/duplicate lines: soundness direction only); open findings D13/D17 remove two shapes from the completeness assertion (see known_findings.json).")

CHECKS["C02"] = dict(engine="scenario", level="exploration", ref="DESIGN.md §3 C02",
  technique="runtime monitoring: ledger oracle over blame/notes after generated history rewrites; before/after digests for aborted, failing and dry-run operations",
  text="Random commit graphs are rewritten through the real binary (rebase plain/--onto/-i, cherry-pick, amend, squash merge, reset+recommit, stash round trips, switch carrying work, merges; conflicts resolved, skipped or aborted) and closed by commit-everything; the ledger decides every surviving line; no-op operations are compared by digests of notes content and effective pending attribution. Exploration is the right level because the quantifier ranges over graphs, ranges, positions and conflict points that can only be sampled.",
  note="Several rewrite shapes are open findings (D2, D12, D20-D23) and are excluded from random exploration by trigger flags while their pinned witnesses keep reporting them; whitespace-only edits are excluded here (D13/D17/D24 family).")
CHECKS["C03"] = dict(engine="scenario", level="exploration", ref="DESIGN.md §3 C03",
  technique="runtime monitoring: universal-negative ledger monitor on every note and blame after every step of destructive-command scripts",
  text="Scripts oversampling destructive commands (reset --hard, forced/path checkout, restore, stash drop/clear, branch -D, clean, rm, mv, aborted operations) followed by a person typing at the discarded positions; after every step every AI claim in any note and in blame at HEAD must be backed by the content ledger. Only the soundness direction is asserted, as the property tolerates loss.",
  note="The same monitor rides on every other scenario check. Open findings D3p (unreported human edit above pending lines) and D24 (AI whitespace change + stash) are excluded by trigger flags.")
CHECKS["C04"] = dict(engine="scenario", level="exploration", ref="DESIGN.md §3 C04",
  technique="runtime monitoring: ledger oracle per partial commit plus once-only count of content keys over the notes of the sequence",
  text="Sequences of 2-5 partial commits by file subset and by staged hunk subset (index built with hash-object/update-index, equivalent to add -p) are closed by commit-everything; each commit's note must list exactly the AI lines git says it added, every AI line must end AI(S) in blame, and no content key may be listed by two commits.",
  note="Index content is constructed directly; interactive `commit -p` UI itself is not driven. Human edits on files with pending claims are checkpointed while D3p is open.")
CHECKS["C05"] = dict(engine="scenario", level="exploration", ref="DESIGN.md §3 C05",
  technique="runtime monitoring: independent v3 note parser + git plumbing invariants after every step, under re-laid-out notes trees",
  text="After every step of generated histories (commit, partial commit, amend, rebase, cherry-pick, squash; unusual and extreme file names) every object in refs/notes/ai is read with ls-tree/cat-file and validated by a parser written from the published spec; the notes tree is re-laid-out (flat, 2/38, 2/2/36, mixed, and grown with synthetic notes in the thorough tier) before rewrite steps.",
  note="Trusts git plumbing and the spec text. File names `---` and names containing a newline are open findings D4/D27 (format cannot represent them).")
