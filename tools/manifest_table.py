ENGINES = [
 dict(name="scenario", path="vf/engine.py", serves_properties=["C01"], kind_free_text="seeded random histories driven through the real git-ai binary in isolated worlds; ground-truth ledger on unique line tokens; global C03/C05 monitors after every step"),
]
PENDING = {}
CHECKS["C01"] = dict(engine="scenario", level="exploration", ref="DESIGN.md §3 C01, §2.3",
  technique="runtime monitoring: ledger oracle over notes and blame of generated commit histories",
  text="Hundreds (quick) to thousands (thorough) of seeded random edit scripts are run against the real binary; after every commit the note and `git-ai blame --json` are compared line by line with a content-keyed ground-truth ledger that shares nothing with git-ai's diffing. Exploration is the right level: the property quantifies over all contents/interleavings/positions, which can only be sampled; the oracle is exact for unique-token lines.",
  note="Trusts installed git 2.39.5 for `diff -U0`/cat-file; exact only for unique-token lines (decoy blank/duplicate lines: soundness direction only); open findings D13/D17 remove two shapes from the completeness assertion (see known_findings.json).")
