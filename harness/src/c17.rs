//! C17 — authorship logs survive a write/read round trip unchanged.
use crate::guarded;
use crate::rng::Rng;
use git_ai::authorship::authorship_log::{LineRange, PromptRecord};
use git_ai::authorship::authorship_log_serialization::{AttestationEntry, AuthorshipLog, FileAttestation};
use git_ai::authorship::rebase_authorship::verif_exports::{remap_note_content_for_target_commit, try_remap_base_commit_sha_field};
use git_ai::authorship::transcript::Message;
use git_ai::authorship::working_log::AgentId;
use serde_json::json;
use std::collections::{BTreeMap, BTreeSet};

const PATH_PARTS: &[&str] = &[
    "src", "a", "b.txt", "my file.rs", "tab\tname", "q\"uote", "'s'", "-dash", " lead", "trail ", "unié", "中文", "🙂", "x y z", "---",
    "\"base_commit_sha\":\"x\"", "nl\nname", "  two", "dir with sp", "#hash", "0123456789abcdef", "a\\b", "{", "}", "--- ", "  1234567890abcdef 1-2",
    // names that are quoted by the serializer (whitespace) and themselves begin / end with a double quote
    "\"quoted\" title.txt", "end quote\"", "\"start q", "\"", "\"\"", "a \"b\" c", "\" \"",
];
const HASHES: &[&str] = &["0123456789abcdef", "aaaaaaaaaaaaaaaa", "abc1234", "deadbeefdeadbeef", "ffffffffffffffff", "0000000"];
// "any hash strings": everything that is one whitespace-free word (the entry line is `  <hash> <ranges>`)
const ODD_HASHES: &[&str] = &["h", "HUMAN", "human", "1-2", "1,2", "12", "-", "--", "---", "a-b,c", "\"q\"", "é中", "0123456789abcdef0123456789abcdef0123456789abcdef0123456789abcdef",
    "{}", "a:b", "x/y", "#", "\\", "'", "🙂", "0"];

fn gen_path(rng: &mut Rng, allowed: &dyn Fn(&str) -> bool) -> String {
    for _ in 0..50 {
        let n = 1 + rng.below(3);
        let mut parts = Vec::new();
        for _ in 0..n {
            parts.push(*rng.pick(PATH_PARTS));
        }
        let p = parts.join("/");
        if allowed(&p) {
            return p;
        }
    }
    "plain.txt".to_string()
}

fn gen_ranges(rng: &mut Rng) -> Vec<LineRange> {
    let mut v = Vec::new();
    let mut cur = 1u32;
    for _ in 0..1 + rng.below(5) {
        cur += rng.below(5) as u32 + if v.is_empty() { 0 } else { 2 };
        if rng.chance(1, 2) {
            v.push(LineRange::Single(cur));
        } else {
            let e = cur + 1 + rng.below(6) as u32;
            v.push(LineRange::Range(cur, e));
            cur = e;
        }
    }
    // arbitrary multiset: sometimes shuffled
    if rng.chance(1, 4) {
        v.reverse();
    }
    v
}

/// "any multiset of single lines and ranges": duplicates, overlaps, nesting, degenerate ranges, any order, numbers up to u32::MAX
fn gen_ranges_multiset(rng: &mut Rng) -> Vec<LineRange> {
    let mut v = Vec::new();
    let base: u32 = *rng.pick(&[0u32, 0, 0, 1000, 4_294_967_200]);
    for _ in 0..1 + rng.below(8) {
        let a = base + 1 + rng.below(24) as u32;
        match rng.below(5) {
            0 | 1 => v.push(LineRange::Single(a)),
            2 => v.push(LineRange::Range(a, a)),
            _ => v.push(LineRange::Range(a, a + 1 + rng.below(12) as u32)),
        }
        if rng.chance(1, 5) {
            let last = v[v.len() - 1].clone();
            v.push(last);
        }
    }
    v
}

fn lines_of(r: &[LineRange]) -> BTreeSet<u32> {
    let mut s = BTreeSet::new();
    for x in r {
        match x {
            LineRange::Single(a) => { s.insert(*a); }
            LineRange::Range(a, b) => { for i in *a..=*b { s.insert(i); } }
        }
    }
    s
}

fn canon(log: &AuthorshipLog) -> BTreeMap<String, BTreeMap<String, BTreeSet<u32>>> {
    let mut m: BTreeMap<String, BTreeMap<String, BTreeSet<u32>>> = BTreeMap::new();
    for fa in &log.attestations {
        for e in &fa.entries {
            m.entry(fa.file_path.clone()).or_default().entry(e.hash.clone()).or_default().extend(lines_of(&e.line_ranges));
        }
    }
    m
}

/// Independent grammar check of the serialized text (written from the published standard).
fn grammar_problem(text: &str, ascending: bool) -> Option<String> {
    let lines: Vec<&str> = text.split('\n').collect();
    let div = lines.iter().position(|l| *l == "---");
    let Some(div) = div else { return Some("no divider line".into()) };
    for l in &lines[..div] {
        if l.is_empty() { continue; }
        if let Some(rest) = l.strip_prefix("  ") {
            let Some((h, spec)) = rest.split_once(' ') else { return Some(format!("entry without ranges: {:?}", l)) };
            if h.is_empty() || spec.is_empty() || spec.contains(' ') { return Some(format!("bad entry: {:?}", l)); }
            let mut prev = 0u32;
            for part in spec.split(',') {
                let (a, b) = match part.split_once('-') { Some((a, b)) => (a, b), None => (part, part) };
                let (Ok(a), Ok(b)) = (a.parse::<u32>(), b.parse::<u32>()) else { return Some(format!("bad range {:?}", part)) };
                if a < 1 || b < a || (ascending && a <= prev) { return Some(format!("ranges not ascending: {:?}", spec)); }
                prev = b;
            }
        } else {
            if l.starts_with(' ') || l.starts_with('\t') { return Some(format!("path line with leading whitespace: {:?}", l)); }
            let quoted = l.len() >= 2 && l.starts_with('"') && l.ends_with('"');
            if !quoted && (l.contains(' ') || l.contains('\t')) { return Some(format!("unquoted path with whitespace: {:?}", l)); }
        }
    }
    let meta = lines[div + 1..].join("\n");
    if !serde_json::from_str::<serde_json::Value>(&meta).map(|v| v.is_object()).unwrap_or(false) {
        return Some("metadata after the first divider is not a JSON object".into());
    }
    None
}

pub fn run(seed: u64, n: usize, extra: &[String]) -> String {
    let mut rng = Rng::new(seed);
    let flags_off: BTreeSet<String> = extra.iter().cloned().collect();
    let mut viol: Vec<serde_json::Value> = Vec::new();
    let mut sigs: BTreeSet<String> = BTreeSet::new();
    let mut counters: BTreeMap<&str, u64> = BTreeMap::new();
    let mut samples: Vec<serde_json::Value> = Vec::new();
    let allowed = |p: &str| -> bool {
        // path classes that are open findings are kept out of random exploration by flag
        if flags_off.contains("name:---") && p.split('/').any(|c| c == "---") && p == "---" { return false; }
        if flags_off.contains("name:---") && p == "---" { return false; }
        if flags_off.contains("name:nl\nname.txt") && p.contains('\n') { return false; }
        if flags_off.contains("path:json-field") && p.contains("base_commit_sha") { return false; }
        if flags_off.contains("path:leading-space") && p.starts_with(' ') { return false; }
        if flags_off.contains("path:quote-wrapped") && p.len() >= 2 && p.starts_with('"') && p.ends_with('"') { return false; }
        if flags_off.contains("path:trailing-space") && p.ends_with(' ') { return false; }
        true
    };

    for case in 0..n {
        if viol.len() >= 8 { break; }
        if case % 4 == 3 {
            // ---- arbitrary text / mutated valid notes for the parser: never panics, rejects text without a divider
            let alphabet: Vec<&str> = vec!["a", " ", "  ", "\n", "---", "{", "}", "\"", ":", "1-2", ",", "0123456789abcdef", "\t", "é", "\"prompts\"", "base_commit_sha", "\r"];
            let mut s = String::new();
            for _ in 0..rng.below(60) { s.push_str(*rng.pick(&alphabet[..])); }
            let has_div = s.split('\n').any(|l| l == "---");
            let s2 = s.clone();
            *counters.entry("arbitrary_texts").or_insert(0) += 1;
            match guarded(move || AuthorshipLog::deserialize_from_string(&s2).is_ok()) {
                Err(p) => viol.push(json!({"kind": "C17/panic-parse", "panic": p, "text": s})),
                Ok(ok) => {
                    if ok && !has_div {
                        viol.push(json!({"kind": "C17/accepted-text-without-divider", "text": s}));
                    }
                }
            }
            let s3 = s.clone();
            if let Err(p) = guarded(move || { let _ = try_remap_base_commit_sha_field(&s3, "abc"); }) {
                viol.push(json!({"kind": "C17/panic-remap", "panic": p, "text": s}));
            }
            sigs.insert(format!("arb|{}|{}", has_div, s.len() / 40));
            continue;
        }
        // ---- structured logs
        let mut log = AuthorshipLog::new();
        log.metadata.base_commit_sha = format!("{:040x}", rng.next() as u128);
        let nfiles = *rng.pick(&[0usize, 1, 1, 2, 3, 8, 20]);
        let mut used = BTreeSet::new();
        let mut classes = BTreeSet::new();
        let multiset = rng.chance(1, 3);
        let odd_hashes = rng.chance(1, 4);
        if multiset { classes.insert("multiset-ranges"); }
        if odd_hashes { classes.insert("odd-hashes"); }
        match rng.below(4) {
            0 => { log.metadata.git_ai_version = None; classes.insert("no-version"); }
            1 => { log.metadata.git_ai_version = Some(rng.pick(&["1.2.3", "", "v\"x\"", "---", "9.9.9-é"]).to_string()); }
            _ => {}
        }
        for _ in 0..nfiles {
            let p = gen_path(&mut rng, &allowed);
            if !used.insert(p.clone()) { continue; }
            for (name, t) in [("space", p.contains(' ')), ("tab", p.contains('\t')), ("quote", p.contains('"')), ("nl", p.contains('\n')), ("unicode", !p.is_ascii()),
                              ("dash", p.starts_with('-')), ("divider", p == "---"), ("json", p.contains("base_commit_sha"))] {
                if t { classes.insert(name); }
            }
            let mut fa = FileAttestation::new(p);
            let mut hs = BTreeSet::new();
            for _ in 0..1 + rng.below(3) {
                let h = if odd_hashes && rng.chance(1, 2) { rng.pick(ODD_HASHES).to_string() } else { rng.pick(HASHES).to_string() };
                if !hs.insert(h.clone()) { continue; }
                let ranges = if multiset { gen_ranges_multiset(&mut rng) } else { gen_ranges(&mut rng) };
                fa.add_entry(AttestationEntry::new(h.clone(), ranges));
                let texts = ["hello", "---", "src/a b.txt", "  0123456789abcdef 1-2", "\"base_commit_sha\": \"zzz\"", "multi\nline\n---\nmore", "é中🙂"];
                let mut msgs = vec![Message::user(rng.pick(&texts).to_string(), None), Message::assistant(rng.pick(&texts).to_string(), None)];
                if rng.chance(1, 3) {
                    // a tool call whose JSON arguments reuse the note's own metadata key names (real, unescaped JSON keys further down the note)
                    let ts = if rng.chance(1, 2) { Some("2026-01-01T00:00:00Z".to_string()) } else { None };
                    msgs.push(Message::ToolUse { name: "Edit".into(), input: json!({"file_path": rng.pick(&texts).to_string(), "base_commit_sha": format!("{:040x}", rng.next() as u128),
                        "nested": {"base_commit_sha": rng.pick(&texts).to_string(), "schema_version": "authorship/9.9.9"}, "prompts": {}, "list": [{"base_commit_sha": "x"}]}), timestamp: ts });
                    // tool calls whose recorded input is not an object: null (arguments that did not parse), empty, scalar, array
                    let odd = match rng.below(7) { 0 => json!(null), 1 => json!({}), 2 => json!([]), 3 => json!("just text"), 4 => json!(0), 5 => json!(false), _ => json!([null, {"a": null}]) };
                    msgs.push(Message::ToolUse { name: rng.pick(&["Bash", "", "Edit"]).to_string(), input: odd, timestamp: if rng.chance(1, 2) { Some(String::new()) } else { None } });
                    msgs.push(Message::Thinking { text: rng.pick(&texts).to_string(), timestamp: None });
                    msgs.push(Message::Plan { text: rng.pick(&texts).to_string(), timestamp: Some("t".into()) });
                }
                log.metadata.prompts.entry(h).or_insert_with(|| PromptRecord {
                    agent_id: AgentId { tool: "tool".into(), id: format!("id{}", rng.below(100)), model: "m".into() },
                    human_author: if rng.chance(1, 2) { Some("A <a@b>".into()) } else { None },
                    messages: msgs,
                    total_additions: rng.below(100) as u32, total_deletions: rng.below(100) as u32, accepted_lines: rng.below(100) as u32, overriden_lines: rng.below(10) as u32,
                    messages_url: if rng.chance(1, 4) { Some("https://example.invalid/\"base_commit_sha\": \"u\"".into()) } else { None },
                });
            }
            log.attestations.push(fa);
        }
        *counters.entry("structured_logs").or_insert(0) += 1;
        let lg = log.clone();
        let text = match guarded(move || lg.serialize_to_string()) {
            Err(p) => { viol.push(json!({"kind": "C17/panic-serialize", "panic": p})); continue; }
            Ok(Err(_)) => { viol.push(json!({"kind": "C17/serialize-error"})); continue; }
            Ok(Ok(t)) => t,
        };
        // ranges given as a sorted, disjoint list must come out ascending; for an arbitrary multiset only the entry syntax is checked
        if let Some(p) = grammar_problem(&text, !multiset) {
            viol.push(json!({"kind": "C17/grammar", "problem": p, "paths": log.attestations.iter().map(|f| f.file_path.clone()).collect::<Vec<_>>(), "text": text.chars().take(400).collect::<String>()}));
            continue;
        }
        let t2 = text.clone();
        let back = match guarded(move || AuthorshipLog::deserialize_from_string(&t2).map_err(|e| e.to_string())) {
            Err(p) => { viol.push(json!({"kind": "C17/panic-parse", "panic": p, "text": text.chars().take(400).collect::<String>()})); continue; }
            Ok(Err(e)) => { viol.push(json!({"kind": "C17/own-output-rejected", "err": e, "paths": log.attestations.iter().map(|f| f.file_path.clone()).collect::<Vec<_>>(), "text": text.chars().take(400).collect::<String>()})); continue; }
            Ok(Ok(b)) => b,
        };
        if canon(&back) != canon(&log) {
            viol.push(json!({"kind": "C17/roundtrip-attestations-differ", "paths": log.attestations.iter().map(|f| f.file_path.clone()).collect::<Vec<_>>(),
                             "before": format!("{:?}", canon(&log)).chars().take(300).collect::<String>(), "after": format!("{:?}", canon(&back)).chars().take(300).collect::<String>()}));
            continue;
        }
        if back.metadata.base_commit_sha != log.metadata.base_commit_sha || back.metadata.prompts != log.metadata.prompts || back.metadata.schema_version != log.metadata.schema_version
            || back.metadata.git_ai_version != log.metadata.git_ai_version {
            viol.push(json!({"kind": "C17/roundtrip-metadata-differs"}));
            continue;
        }
        // mutated valid notes for the parser: never panics; whatever it accepts has a divider line
        for _ in 0..3 {
            let mut chars: Vec<char> = text.chars().collect();
            if chars.is_empty() { break; }
            for _ in 0..1 + rng.below(3) {
                let i = rng.below(chars.len());
                match rng.below(7) {
                    0 => { chars.remove(i); }
                    1 => { let c = chars[i]; chars.insert(i, c); }
                    2 => { chars.insert(i, *rng.pick(&['\n', ' ', '"', '-', ',', '{', '}', '\r', '\t', 'é', '9'])); }
                    3 => { chars.truncate(i); }
                    4 => { chars[i] = *rng.pick(&['\n', ' ', '"', '-', ',', ':', '0']); }
                    5 => { let j = rng.below(chars.len()); chars.swap(i, j); }
                    _ => { let tail: Vec<char> = chars[i..].to_vec(); chars.extend(tail); }
                }
                if chars.is_empty() { break; }
            }
            let m: String = chars.into_iter().collect();
            let has_div = m.lines().any(|l| l == "---");
            let m2 = m.clone();
            *counters.entry("mutated_notes").or_insert(0) += 1;
            match guarded(move || AuthorshipLog::deserialize_from_string(&m2).is_ok()) {
                Err(p) => { viol.push(json!({"kind": "C17/panic-parse", "panic": p, "text": m.chars().take(400).collect::<String>()})); }
                Ok(ok) => {
                    if ok { *counters.entry("mutated_notes_accepted").or_insert(0) += 1; }
                    if ok && !has_div { viol.push(json!({"kind": "C17/accepted-text-without-divider", "text": m.chars().take(400).collect::<String>()})); }
                }
            }
            let m3 = m.clone();
            if let Err(p) = guarded(move || { let _ = try_remap_base_commit_sha_field(&m3, "abc"); let _ = remap_note_content_for_target_commit(&m3, "abc"); }) {
                viol.push(json!({"kind": "C17/panic-remap", "panic": p, "text": m.chars().take(400).collect::<String>()}));
            }
        }
        // base-commit remap: the result parses to the same log with the new base
        let target = format!("{:040x}", rng.next() as u128);
        for (name, remapped) in [("try_remap", try_remap_base_commit_sha_field(&text, &target)), ("remap", Some(remap_note_content_for_target_commit(&text, &target)))] {
            let Some(r) = remapped else { *counters.entry("remap_declined").or_insert(0) += 1; continue; };
            *counters.entry("remaps_checked").or_insert(0) += 1;
            match AuthorshipLog::deserialize_from_string(&r) {
                Err(e) => { viol.push(json!({"kind": "C17/remap-unparsable", "which": name, "err": e.to_string(), "paths": log.attestations.iter().map(|f| f.file_path.clone()).collect::<Vec<_>>()})); }
                Ok(b2) => {
                    if b2.metadata.base_commit_sha != target || canon(&b2) != canon(&log) || b2.metadata.prompts != log.metadata.prompts {
                        viol.push(json!({"kind": "C17/remap-changed-log", "which": name, "paths": log.attestations.iter().map(|f| f.file_path.clone()).collect::<Vec<_>>(),
                                         "base_after": b2.metadata.base_commit_sha, "target": target, "prompts_equal": b2.metadata.prompts == log.metadata.prompts, "attestations_equal": canon(&b2) == canon(&log)}));
                    }
                }
            }
        }
        sigs.insert(format!("{}|{:?}", nfiles.min(4), classes));
        if samples.len() < 3 && nfiles > 0 {
            samples.push(json!({"paths": log.attestations.iter().map(|f| f.file_path.clone()).collect::<Vec<_>>(), "text": text.chars().take(300).collect::<String>()}));
        }
    }
    json!({"cases": n, "violations": viol, "distinct": sigs.len(), "counters": counters, "samples": samples}).to_string()
}
