//! In-process probe for the pure entry points of git-ai (C16 tracker, C17 serializer, C18 CLI parser, C20 presets).
//! usage: probe <c16|c17|c18|c20> <seed> <cases> [extra...]   -> one JSON object on stdout
use std::panic;
use std::sync::Mutex;

mod c16;
mod c17;
mod c18;
mod c20;
mod rng;

pub static LAST_PANIC: Mutex<Option<String>> = Mutex::new(None);

pub fn guarded<T>(f: impl FnOnce() -> T + panic::UnwindSafe) -> Result<T, String> {
    match panic::catch_unwind(f) {
        Ok(v) => Ok(v),
        Err(p) => {
            let msg = if let Some(s) = p.downcast_ref::<&str>() {
                s.to_string()
            } else if let Some(s) = p.downcast_ref::<String>() {
                s.clone()
            } else {
                "unknown panic".to_string()
            };
            let loc = LAST_PANIC.lock().unwrap().take().unwrap_or_default();
            Err(format!("{} @ {}", msg, loc))
        }
    }
}

fn main() {
    panic::set_hook(Box::new(|info| {
        let loc = info
            .location()
            .map(|l| format!("{}:{}", l.file(), l.line()))
            .unwrap_or_default();
        if std::env::var("PROBE_PANIC_TRACE").is_ok() {
            eprintln!("probe panic at {}: {}", loc, info);
        }
        *LAST_PANIC.lock().unwrap() = Some(loc);
    }));
    let args: Vec<String> = std::env::args().collect();
    if args.len() >= 2 && args[1] == "c16eval" {
        println!("{}", c16::eval());
        return;
    }
    if args.len() >= 3 && args[1] == "c18alias" {
        println!("{}", c18::alias_eval(&args[2]));
        return;
    }
    if args.len() < 4 {
        eprintln!("usage: probe <c16|c17|c18|c20> <seed> <cases> [extra...]");
        std::process::exit(2);
    }
    let seed: u64 = args[2].parse().unwrap_or(1);
    let n: usize = args[3].parse().unwrap_or(1000);
    let extra: Vec<String> = args[4..].to_vec();
    let out = match args[1].as_str() {
        "c16" => c16::run(seed, n, &extra),
        "c17" => c17::run(seed, n, &extra),
        "c18" => c18::run(seed, n, &extra),
        "c20" => c20::run(seed, n, &extra),
        _ => {
            eprintln!("unknown mode");
            std::process::exit(2);
        }
    };
    println!("{}", out);
}
