//! C18 — the proxy hands git exactly the arguments the user typed (in-process part).
//! Emits, for generated argument vectors, the re-emitted vector and the classified command; the Python side decides
//! equivalence under real git for the vectors that differ and compares command / alias classification with GIT_TRACE.
use crate::guarded;
use crate::rng::Rng;
use git_ai::commands::git_handlers::verif_exports::{parse_alias_tokens, resolve_alias_impl};
use git_ai::git::cli_parser::parse_git_cli_args;
use git_ai::git::repository::find_repository_in_path;
use serde_json::json;
use std::collections::{BTreeMap, BTreeSet};

const GLOBALS_NOVAL: &[&str] = &["-p", "--paginate", "-P", "--no-pager", "--no-replace-objects", "--bare", "--literal-pathspecs", "--glob-pathspecs",
    "--noglob-pathspecs", "--icase-pathspecs", "--no-optional-locks", "--no-lazy-fetch", "--no-advice"];
const GLOBALS_VAL: &[(&str, &str)] = &[("-C", "."), ("-c", "a.b=c"), ("--git-dir", ".git"), ("--work-tree", "."), ("--namespace", "ns"), ("--exec-path", "/usr/lib/git-core"),
    ("--config-env", "x.y=HOME"), ("--attr-source", "HEAD"), ("--list-cmds", "main")];
const META: &[&str] = &["--version", "-v", "--help", "-h", "--html-path", "--man-path", "--info-path", "--exec-path"];
const COMMANDS: &[&str] = &["status", "log", "commit", "add", "diff", "rev-parse", "branch", "checkout", "stash", "version", "help", "nosuch", "st", "lg", "rec", "sh", "q", "loop1", "pg", "ppg", "pst", "lg2", "-weird"];
const CMD_ARGS: &[&str] = &["-s", "--oneline", "-1", "-m", "msg", "--", "a.txt", "-C", "HEAD", "--git-dir", "-c", "x=y", "--help", "-h", "--version", "status", "commit", "--", "-p", "-v", "--all"];
const UNKNOWN: &[&str] = &["--nonsense", "-x", "-Z", "--git-dirx", "--version=1", "-cfoo", "-Cdir"];

/// Returns (vector, well_formed, has_meta): well_formed = every value-taking global option has its value, no unknown
/// top-level option, no top-level `--`, at most one meta option and it comes last among the globals.
fn gen_vec(rng: &mut Rng) -> (Vec<String>, bool, bool) {
    let mut v: Vec<String> = Vec::new();
    let mut wf = true;
    let mut meta = 0;
    for _ in 0..rng.below(4) {
        if meta > 0 { wf = false; }
        match rng.below(10) {
            0..=3 => v.push(rng.pick(GLOBALS_NOVAL).to_string()),
            4..=6 => {
                let (k, val) = *rng.pick(GLOBALS_VAL);
                match rng.below(4) {
                    0 if k.starts_with("--") => v.push(format!("{}={}", k, val)),
                    1 if !k.starts_with("--") => v.push(format!("{}{}", k, val)),
                    2 => { v.push(k.to_string()); wf = false; } // value missing / next token becomes the value
                    _ => { v.push(k.to_string()); v.push(val.to_string()); }
                }
                if k == "--exec-path" || k == "--list-cmds" { wf = false; }
            }
            7 => { let m = rng.pick(META).to_string(); if m == "--exec-path" { wf = false; } v.push(m); meta += 1; }
            8 => { v.push(if rng.chance(1, 4) { String::new() } else { rng.pick(UNKNOWN).to_string() }); wf = false; }
            _ => { v.push("--".to_string()); wf = false; }
        }
    }
    if rng.chance(5, 6) {
        let c = rng.pick(COMMANDS).to_string();
        if c.starts_with('-') { wf = false; }
        v.push(c);
        for _ in 0..rng.below(4) {
            v.push(rng.pick(CMD_ARGS).to_string());
        }
    }
    (v, wf, meta > 0)
}

/// tokens of one alias value (witness support)
pub fn alias_eval(value: &str) -> String {
    let v = value.to_string();
    match guarded(move || parse_alias_tokens(&v)) {
        Err(p) => json!({"panic": p}).to_string(),
        Ok(t) => json!({"tokens": t}).to_string(),
    }
}

pub fn run(seed: u64, n: usize, extra: &[String]) -> String {
    let mut rng = Rng::new(seed);
    let repo = extra.first().and_then(|p| find_repository_in_path(p).ok());
    let emit: usize = extra.get(1).and_then(|s| s.parse().ok()).unwrap_or(400);
    let mut viol: Vec<serde_json::Value> = Vec::new();
    let mut differing: Vec<serde_json::Value> = Vec::new();
    let mut classified: Vec<serde_json::Value> = Vec::new();
    let mut aliases: Vec<serde_json::Value> = Vec::new();
    let mut sigs: BTreeSet<String> = BTreeSet::new();
    let mut seen_diff: BTreeSet<String> = BTreeSet::new();
    let mut counters: BTreeMap<&str, u64> = BTreeMap::new();
    for _ in 0..n {
        let (v, wf, has_meta) = gen_vec(&mut rng);
        let v2 = v.clone();
        let parsed = match guarded(move || parse_git_cli_args(&v2)) {
            Err(p) => { viol.push(json!({"kind": "C18/panic-parse", "panic": p, "argv": v})); continue; }
            Ok(p) => p,
        };
        let inv = parsed.to_invocation_vec();
        *counters.entry("vectors").or_insert(0) += 1;
        let shape = format!("{}|{}|{}", v.iter().take_while(|t| t.starts_with('-')).count().min(4), parsed.command.is_some(), v.len().min(6));
        sigs.insert(shape);
        if inv != v && wf && has_meta {
            // the documented normalisation turns a top-level --help / -h / --version / -v into the help / version subcommand; the global
            // options typed in front of it are still the user's arguments and must be handed on verbatim, in the same order
            if let Some(k) = v.iter().position(|t| ["--version", "-v", "--help", "-h"].contains(&t.as_str())) {
                let before_is_global_only = v[..k].iter().all(|t| t.starts_with('-') || GLOBALS_VAL.iter().any(|(_, val)| val == t));
                if before_is_global_only && (inv.len() < k || inv[..k] != v[..k]) {
                    *counters.entry("meta_vectors_prefix_checked").or_insert(0) += 1;
                    if viol.len() < 8 {
                        viol.push(json!({"kind": "C18/global-options-before-help-or-version-not-handed-on", "argv": v, "reemitted": inv}));
                    }
                } else if before_is_global_only {
                    *counters.entry("meta_vectors_prefix_checked").or_insert(0) += 1;
                }
            }
        }
        if inv != v {
            *counters.entry("reemitted_differently").or_insert(0) += 1;
            let key = format!("{:?}", v);
            if seen_diff.insert(key) && differing.len() < emit {
                differing.push(json!({"argv": v, "reemitted": inv, "command": parsed.command, "wf": wf, "meta": has_meta}));
            }
        } else if classified.len() < emit && rng.chance(1, 8) {
            classified.push(json!({"argv": v, "command": parsed.command, "is_help": parsed.is_help, "wf": wf, "meta": has_meta}));
        }
        if let Some(r) = repo.as_ref() {
            if let Some(cmd) = parsed.command.as_deref() {
                if ["st", "lg", "rec", "sh", "q", "loop1", "lg2", "pg", "ppg", "pst"].contains(&cmd) && aliases.len() < emit {
                    let p2 = parsed.clone();
                    let r2 = r.clone();
                    match guarded(panic::AssertUnwindSafe(move || resolve_alias_impl(&p2, &r2))) {
                        Err(p) => viol.push(json!({"kind": "C18/panic-alias", "panic": p, "argv": v})),
                        Ok(res) => aliases.push(json!({"argv": v, "wf": wf, "meta": has_meta, "resolved_command": res.as_ref().map(|x| x.command.clone()), "resolved_argv": res.as_ref().map(|x| x.to_invocation_vec())})),
                    }
                }
            }
        }
    }
    // alias tokenizer on arbitrary strings: never panics
    let alpha: Vec<&str> = vec!["a", " ", "'", "\"", "\\", "!", "-", "x y", "\t", "é", "log", "--format=%s"];
    for _ in 0..n / 10 {
        let mut s = String::new();
        for _ in 0..rng.below(12) { s.push_str(*rng.pick(&alpha[..])); }
        let s2 = s.clone();
        if let Err(p) = guarded(move || { let _ = parse_alias_tokens(&s2); }) {
            viol.push(json!({"kind": "C18/panic-alias-tokens", "panic": p, "value": s}));
        }
        *counters.entry("alias_values").or_insert(0) += 1;
    }
    // alias tokenizer on structured values (words, quoted segments, backslashes): the tokens are emitted and compared with git's own
    // split of the same value (GIT_TRACE alias expansion) by the python side
    let mut alias_tokens: Vec<serde_json::Value> = Vec::new();
    let words: Vec<&str> = vec!["--format=%s", "-3", "--grep=v1", "a b", "x", "\\", "\\.", "\\ ", "\\'", "\\\"", "é", "$HOME", "#c", "--", "-n", "1"];
    let wrote_off: Vec<String> = extra.iter().skip(2).cloned().collect();
    let no_empty = wrote_off.iter().any(|f| f == "alias_empty_quoted_token");
    let no_trailing_bs = wrote_off.iter().any(|f| f == "alias_trailing_backslash");
    for _ in 0..emit {
        let mut s = String::from("log");
        for _ in 0..(1 + rng.below(4)) {
            s.push(' ');
            for _ in 0..(1 + rng.below(3)) {
                let wd = *rng.pick(&words[..]);
                match rng.below(4) {
                    0 => { s.push('\''); s.push_str(&wd.replace('\'', "")); s.push('\''); }
                    1 => { s.push('"'); s.push_str(&wd.replace('"', "")); s.push('"'); }
                    2 if !no_empty && rng.chance(1, 6) => { s.push_str("''"); }
                    _ => s.push_str(&wd.replace(' ', "")),
                }
            }
        }
        if rng.chance(1, 12) { s.push_str(" 'unclosed"); }
        if no_trailing_bs {
            // finding D49: a value ending in an unescaped backslash
            let trailing = s.chars().rev().take_while(|c| *c == '\\').count();
            if trailing % 2 == 1 { s.push('x'); }
        }
        let s2 = s.clone();
        match guarded(move || parse_alias_tokens(&s2)) {
            Err(p) => viol.push(json!({"kind": "C18/panic-alias-tokens", "panic": p, "value": s})),
            Ok(t) => alias_tokens.push(json!({"value": s, "tokens": t})),
        }
    }
    json!({"cases": n, "violations": viol, "distinct": sigs.len(), "counters": counters, "differing": differing, "classified": classified, "aliases": aliases, "alias_tokens": alias_tokens}).to_string()
}

use std::panic;
