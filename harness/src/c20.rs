//! C20 — agent hook ingestion never fails the agent: every preset's run() on structurally mutated payloads never unwinds.
use crate::guarded;
use crate::rng::Rng;
use git_ai::commands::checkpoint_agent::agent_presets::{
    AgentCheckpointFlags, AgentCheckpointPreset, AiTabPreset, ClaudePreset, CodexPreset, ContinueCliPreset, CursorPreset, DroidPreset, GeminiPreset, GithubCopilotPreset,
};
use git_ai::commands::checkpoint_agent::agent_v1_preset::AgentV1Preset;
use git_ai::commands::checkpoint_agent::amp_preset::AmpPreset;
use git_ai::commands::checkpoint_agent::opencode_preset::OpenCodePreset;
use serde_json::{Value, json};
use std::collections::{BTreeMap, BTreeSet};
use std::panic::AssertUnwindSafe;

fn run_preset(name: &str, input: Option<String>) -> Result<bool, String> {
    let flags = AgentCheckpointFlags { hook_input: input };
    guarded(AssertUnwindSafe(move || match name {
        "claude" => ClaudePreset.run(flags).is_ok(),
        "codex" => CodexPreset.run(flags).is_ok(),
        "gemini" => GeminiPreset.run(flags).is_ok(),
        "continue-cli" => ContinueCliPreset.run(flags).is_ok(),
        "cursor" => CursorPreset.run(flags).is_ok(),
        "github-copilot" => GithubCopilotPreset.run(flags).is_ok(),
        "amp" => AmpPreset.run(flags).is_ok(),
        "ai_tab" => AiTabPreset.run(flags).is_ok(),
        "droid" => DroidPreset.run(flags).is_ok(),
        "opencode" => OpenCodePreset.run(flags).is_ok(),
        _ => AgentV1Preset.run(flags).is_ok(),
    }))
}

fn mutate(rng: &mut Rng, v: &mut Value, depth: usize) {
    match v {
        Value::Object(m) => {
            let keys: Vec<String> = m.keys().cloned().collect();
            if keys.is_empty() { return; }
            let k = rng.pick(&keys).clone();
            match rng.below(9) {
                0 => { m.remove(&k); }
                1 => { if let Some(x) = m.remove(&k) { m.insert(format!("{}_x", k), x); } }
                2 => { m.insert(k, Value::Null); }
                3 => { m.insert(k, json!(12345)); }
                4 => { m.insert(k, json!(["a", 1, null, {"b": []}])); }
                5 => { m.insert(k, json!("x".repeat(*rng.pick(&[0usize, 1, 70000])))); }
                6 => { m.insert(k, json!({"nested": {"deep": {"deeper": [[[[[]]]]]}}})); }
                7 => { m.insert(k, json!("../../../etc/passwd")); }
                _ => { if depth < 4 { if let Some(x) = m.get_mut(&k) { mutate(rng, x, depth + 1); } } }
            }
        }
        Value::Array(a) => {
            if a.is_empty() { a.push(json!({"x": 1})); return; }
            let i = rng.below(a.len());
            match rng.below(4) {
                0 => { a.remove(i); }
                1 => { a[i] = Value::Null; }
                2 => { let x = a[i].clone(); for _ in 0..50 { a.push(x.clone()); } }
                _ => { if depth < 4 { mutate(rng, &mut a[i], depth + 1); } }
            }
        }
        Value::String(s) => { *s = match rng.below(4) { 0 => String::new(), 1 => "\u{feff}bom".into(), 2 => "é中🙂\u{0}".into(), _ => format!("{}{}", s, "/../..") }; }
        other => { *other = json!("was-not-a-string"); }
    }
}

pub fn run(seed: u64, n: usize, extra: &[String]) -> String {
    let mut rng = Rng::new(seed);
    // extra[0]: directory with <preset>.json seed payloads (one JSON array of payloads per preset)
    let dir = extra.first().cloned().unwrap_or_default();
    let presets = ["claude", "codex", "gemini", "continue-cli", "cursor", "github-copilot", "amp", "ai_tab", "droid", "opencode", "agent-v1"];
    let mut seeds: BTreeMap<&str, Vec<Value>> = BTreeMap::new();
    for p in presets {
        let path = format!("{}/{}.json", dir, p);
        let vals: Vec<Value> = std::fs::read_to_string(&path).ok().and_then(|s| serde_json::from_str(&s).ok()).unwrap_or_else(|| vec![json!({})]);
        seeds.insert(p, vals);
    }
    let mut viol: Vec<Value> = Vec::new();
    let mut sigs: BTreeSet<String> = BTreeSet::new();
    let mut counters: BTreeMap<String, u64> = BTreeMap::new();
    for case in 0..n {
        if viol.len() >= 8 { break; }
        let p = presets[case % presets.len()];
        let base = rng.pick(&seeds[p]).clone();
        let (input, how): (Option<String>, &str) = match rng.below(12) {
            0 => (None, "none"),
            1 => (Some(String::new()), "empty"),
            2 => (Some("not json at all".into()), "non-json"),
            3 => { let s = base.to_string(); let cut = rng.below(s.len().max(1)); let mut c = cut; while !s.is_char_boundary(c) { c -= 1; } (Some(s[..c].to_string()), "truncated") }
            4 => (Some(format!("\u{feff}{}", base)), "bom"),
            5 => (Some("[1,2,3]".into()), "array"),
            6 => (Some("null".into()), "null"),
            7 => (Some(base.to_string()), "valid"),
            _ => { let mut v = base.clone(); for _ in 0..1 + rng.below(3) { mutate(&mut rng, &mut v, 0); } (Some(v.to_string()), "mutated") }
        };
        *counters.entry(format!("{}:{}", p, how)).or_insert(0) += 1;
        let shown = input.clone().map(|s| s.chars().take(300).collect::<String>());
        match run_preset(p, input) {
            Err(panic_msg) => viol.push(json!({"kind": "C20/preset-panicked", "preset": p, "how": how, "panic": panic_msg, "payload": shown})),
            Ok(ok) => { sigs.insert(format!("{}|{}|{}", p, how, ok)); }
        }
    }
    json!({"cases": n, "violations": viol, "distinct": sigs.len(), "counters": counters}).to_string()
}
