//! Tiny deterministic PRNG (splitmix64 / xorshift) so that the harness needs no extra crates.
pub struct Rng(u64);

impl Rng {
    pub fn new(seed: u64) -> Self {
        Rng(seed.wrapping_mul(0x9E3779B97F4A7C15) ^ 0xD1B54A32D192ED03)
    }
    pub fn next(&mut self) -> u64 {
        self.0 = self.0.wrapping_add(0x9E3779B97F4A7C15);
        let mut z = self.0;
        z = (z ^ (z >> 30)).wrapping_mul(0xBF58476D1CE4E5B9);
        z = (z ^ (z >> 27)).wrapping_mul(0x94D049BB133111EB);
        z ^ (z >> 31)
    }
    pub fn below(&mut self, n: usize) -> usize {
        if n == 0 { 0 } else { (self.next() % n as u64) as usize }
    }
    pub fn chance(&mut self, num: u64, den: u64) -> bool {
        self.next() % den < num
    }
    pub fn pick<'a, T>(&mut self, xs: &'a [T]) -> &'a T {
        &xs[self.below(xs.len())]
    }
}
