//! C16 — the attribution tracker is total, bounded and conservative.
use crate::guarded;
use crate::rng::Rng;
use git_ai::authorship::attribution_tracker::{
    Attribution, AttributionTracker, LineAttribution, attributions_to_line_attributions,
    line_attributions_to_attributions,
};
use serde_json::json;
use std::collections::{BTreeMap, BTreeSet};

const PREFIXES: &[&str] = &[
    "", "", "", "    ", "\t", "++ ", "-- ", "@@ -1 +1 @@ ", "let x = ", "# ", "日本語 ", "é ", "🙂 ", "\"q\" ", "a\u{0301} ",
];
// quoted literals with escapes (the tokenizer treats string literals specially): ASCII and multi-byte characters after the backslash
const LITERALS: &[&str] = &[
    " \"a\\nb\"", " \"C:\\été\\data\"", " '\\é'", " `\\🙂x`", " \"\\中\"", " 'it\\'s'", " \"unterminated \\", " \"\\\\\"", " '\\a\u{0301}'", " \"é\\\"",
];
static NO_OPEN_QUOTES: std::sync::atomic::AtomicBool = std::sync::atomic::AtomicBool::new(false);
const AUTHORS: &[&str] = &["human", "aaaaaaaaaaaaaaa1", "bbbbbbbbbbbbbbb2", "ccccccccccccccc3"];

#[derive(Clone)]
struct Line {
    text: String,
    author: String, // ground truth author of the line ("human" or a session id)
    moved: bool,
    strict_moved: bool,
    fresh: bool,
    gap_at: usize,  // byte offset of the blank run between the line's first two tokens (outside any quoted literal)
    gap_len: usize,
}

// blank runs between two tokens: ASCII and everything else char::is_whitespace accepts (no line feed)
const BLANKS: &[&str] = &[" ", "  ", "\t", "\u{00A0}", "\u{3000}", "\u{000B}", "\u{000C}", "\u{2003}", "\u{0085}", "\u{2028}", " \u{00A0} ", "\u{00A0}\u{00A0}", "\t\u{3000}"];

fn fresh_line(rng: &mut Rng, n: &mut usize, author: &str) -> Line {
    fresh_line2(rng, n, author, false)
}

fn fresh_line2(rng: &mut Rng, n: &mut usize, author: &str, no_long: bool) -> Line {
    *n += 1;
    let pre = *rng.pick(PREFIXES);
    let gap = if rng.chance(1, 10) { *rng.pick(BLANKS) } else { " " };
    let head = format!("{}tok{:05}_{}", pre, *n, &author[..2]);
    let (gap_at, gap_len) = (head.len(), gap.len());
    let mut text = format!("{}{}v{}", head, gap, rng.below(1000));
    if rng.chance(1, 6) {
        let lit = *rng.pick(LITERALS);
        // finding D51: a quote that is never closed on its line (the literal is lexed across the line break)
        let open = lit.contains("unterminated") || lit.ends_with("\\\"");
        if !(open && NO_OPEN_QUOTES.load(std::sync::atomic::Ordering::Relaxed)) {
            text.push_str(lit);
        }
    }
    if rng.chance(1, 60) && !no_long {
        text.push(' ');
        text.push_str(&"x".repeat(*rng.pick(&[300usize, 5000, 40000])));
    }
    Line { text, author: author.to_string(), moved: false, strict_moved: false, fresh: true, gap_at, gap_len }
}

fn join(lines: &[Line], eol: &str, final_nl: bool) -> String {
    let mut s = String::new();
    for (i, l) in lines.iter().enumerate() {
        s.push_str(&l.text);
        if i + 1 < lines.len() || final_nl {
            s.push_str(eol);
        }
    }
    s
}

/// Char attributions for a text assembled from `lines`: every line (with its terminator) belongs to its author.
fn attrs_for(lines: &[Line], eol: &str, final_nl: bool, ts: u128) -> Vec<Attribution> {
    let mut out = Vec::new();
    let mut pos = 0usize;
    for (i, l) in lines.iter().enumerate() {
        let mut len = l.text.len();
        if i + 1 < lines.len() || final_nl {
            len += eol.len();
        }
        if len > 0 {
            out.push(Attribution::new(pos, pos + len, l.author.clone(), ts));
        }
        pos += len;
    }
    out
}

fn check_bounds(attrs: &[Attribution], text: &str) -> Option<String> {
    for a in attrs {
        if a.start > a.end {
            return Some(format!("start>end {}..{}", a.start, a.end));
        }
        if a.end > text.len() {
            return Some(format!("end {} > len {}", a.end, text.len()));
        }
        if !text.is_char_boundary(a.start) || !text.is_char_boundary(a.end) {
            return Some(format!("range {}..{} not on char boundaries", a.start, a.end));
        }
    }
    None
}

fn ai_lines(la: &[LineAttribution]) -> BTreeMap<u32, String> {
    let mut m = BTreeMap::new();
    for l in la {
        if l.author_id == "human" {
            continue;
        }
        for i in l.start_line..=l.end_line {
            m.insert(i, l.author_id.clone());
        }
    }
    m
}

pub fn run(seed: u64, n: usize, extra: &[String]) -> String {
    let mut rng = Rng::new(seed);
    let max_lines: usize = extra.first().and_then(|s| s.parse().ok()).unwrap_or(60);
    let off: BTreeSet<&str> = extra.iter().skip(1).map(|s| s.as_str()).collect();
    let no_long = off.contains("tracker_long_lines");
    let no_large = off.contains("tracker_large_inputs");
    let no_noeol_append = off.contains("tracker_noeol_append");
    // finding D61: where a moved block lands next to a line with which it shares leading or trailing tokens the token diff may slide
    // the insertion boundary: in the "apart" shape the unchanged line after the landed block takes the block's author, in the
    // "together" shape the first line of the second landed half does. While it is open (flag given) the "together" shape is not
    // generated and, in the "apart" shape, only that one rule is counted instead of reported.
    let d61_open = off.contains("tracker_split_move_slide");
    NO_OPEN_QUOTES.store(off.contains("tracker_unterminated_quote"), std::sync::atomic::Ordering::Relaxed);
    let mut viol: Vec<serde_json::Value> = Vec::new();
    let mut sigs: BTreeSet<String> = BTreeSet::new();
    let mut counters: BTreeMap<&str, u64> = BTreeMap::new();
    let mut tok = 0usize;
    let mut samples: Vec<serde_json::Value> = Vec::new();

    for case in 0..n {
        if viol.len() >= 8 {
            break;
        }
        let arbitrary = case % 3 == 2;
        if arbitrary {
            // ---- arbitrary UTF-8 pairs with arbitrary prior attribution sets: totality and bounds only
            let alphabet: Vec<&str> = vec!["a", "b", " ", "\n", "\r\n", "\t", "é", "中", "🙂", "a\u{0301}", "x", "0", "++ ", "@@", "\"", "'", "`", "\\", "\\é", "\"\\中\""];
            let mk = |rng: &mut Rng| {
                let len = *rng.pick(&[0usize, 1, 2, 5, 20, 80, 400]);
                let mut s = String::new();
                for _ in 0..len {
                    s.push_str(*rng.pick(&alphabet[..]));
                }
                if rng.chance(1, 40) && !no_large {
                    s.push_str(&"L".repeat(200_000));
                }
                s
            };
            let old = mk(&mut rng);
            let new = if rng.chance(1, 5) { old.clone() } else { mk(&mut rng) };
            // a huge single hunk (the tracker has a separate path for those) whose two sides differ in ONE character that shares
            // its leading or trailing UTF-8 bytes with its replacement: 中 / 丮 (E4 B8 AD / AE), é / è, 🙂 / 🙃
            let (old, new) = if rng.chance(1, 2500) {
                let units = ["中", "é", "🙂", "a", "b "];
                let count = 70_000 + rng.below(40_000);
                let parts: Vec<&str> = (0..count).map(|_| *rng.pick(&units[..])).collect();
                let k = rng.below(count);
                let sib = match parts[k] { "中" => "丮", "é" => "è", "🙂" => "🙃", "a" => "c", _ => "d " };
                let o = parts.concat();
                let mut p2 = parts.clone();
                p2[k] = sib;
                *counters.entry("huge_single_hunk_pairs").or_insert(0) += 1;
                (o, p2.concat())
            } else {
                (old, new)
            };
            let mut prior = Vec::new();
            for _ in 0..rng.below(6) {
                let a = rng.below(old.len() + 3);
                let b = if rng.chance(1, 6) { a } else { a + rng.below(old.len() + 3) };
                // priors are arbitrary (overlapping, unsorted, reversed, zero-length, out of range) but, inside the text, sit on
                // character boundaries: a range that splits a character cannot come from any earlier tracker output
                let a = floor_boundary(&old, a);
                let b = floor_boundary(&old, b);
                prior.push(Attribution { start: a, end: b, author_id: rng.pick(AUTHORS).to_string(), ts: rng.below(5) as u128 });
            }
            let author = rng.pick(AUTHORS).to_string();
            *counters.entry("arbitrary_cases").or_insert(0) += 1;
            let (o, nw, pr, au) = (old.clone(), new.clone(), prior.clone(), author.clone());
            let res = guarded(move || AttributionTracker::new().update_attributions(&o, &nw, &pr, &au, 10));
            match res {
                Err(p) => viol.push(json!({"kind": "C16/panic-update", "panic": p, "old": trunc(&old), "new": trunc(&new), "prior": fmt_attrs(&prior)})),
                Ok(Err(e)) => viol.push(json!({"kind": "C16/error-update", "err": format!("{:?}", e), "old": trunc(&old), "new": trunc(&new)})),
                Ok(Ok(attrs)) => {
                    if let Some(p) = check_bounds(&attrs, &new) {
                        viol.push(json!({"kind": "C16/bounds-update", "problem": p, "old": trunc(&old), "new": trunc(&new), "prior": fmt_attrs(&prior)}));
                    }
                    let (nw2, at2) = (new.clone(), attrs.clone());
                    match guarded(move || attributions_to_line_attributions(&at2, &nw2)) {
                        Err(p) => viol.push(json!({"kind": "C16/panic-to-lines", "panic": p, "new": trunc(&new)})),
                        Ok(la) => {
                            let nl = count_lines(&new);
                            for l in &la {
                                if l.start_line < 1 || l.end_line < l.start_line || l.end_line > nl {
                                    viol.push(json!({"kind": "C16/line-bounds", "line_attr": format!("{:?}", l), "lines": nl, "new": trunc(&new)}));
                                    break;
                                }
                            }
                        }
                    }
                }
            }
            let (c, pr, au) = (new.clone(), prior.clone(), author.clone());
            match guarded(move || AttributionTracker::new().attribute_unattributed_ranges(&c, &pr, &au, 11)) {
                Err(p) => viol.push(json!({"kind": "C16/panic-unattributed", "panic": p, "content": trunc(&new), "prior": fmt_attrs(&prior)})),
                Ok(attrs) => {
                    let added: Vec<Attribution> = attrs.iter().filter(|a| a.ts == 11).cloned().collect();
                    if let Some(p) = check_bounds(&added, &new) {
                        viol.push(json!({"kind": "C16/bounds-unattributed", "problem": p, "content": trunc(&new)}));
                    } else if new.len() <= 4000 {
                        // the filled-in ranges are exactly the complement of what the prior set covers: every character is covered by the
                        // prior set or by the filler, never by both (already attributed text keeps its author) and never by neither
                        *counters.entry("unattributed_complement_checks").or_insert(0) += 1;
                        for (idx, ch) in new.char_indices() {
                            let end = idx + ch.len_utf8();
                            let by_prior = prior.iter().any(|a| a.start < end && a.end > idx);
                            let by_filler = added.iter().any(|a| a.start < end && a.end > idx);
                            if by_prior == by_filler {
                                viol.push(json!({"kind": if by_prior { "C16/unattributed-fill-overlaps-attributed-text" } else { "C16/unattributed-fill-leaves-a-gap" },
                                                 "at": idx, "content": trunc(&new), "prior": fmt_attrs(&prior), "filler": fmt_attrs(&added)}));
                                break;
                            }
                        }
                    }
                }
            }
            sigs.insert(format!("arb|{}|{}|{}", bucket(old.len()), bucket(new.len()), prior.len().min(3)));
            continue;
        }

        // ---- structured pairs built from a known edit script over unique-token lines
        let eol = if rng.chance(1, 6) { "\r\n" } else { "\n" };
        let final_nl = !rng.chance(1, 5);
        let nlines = *rng.pick(&[0usize, 1, 2, 5, 12, 30]).min(&max_lines);
        let nlines = if rng.chance(1, 40) && !no_large { 400 } else { nlines };
        let final_nl = final_nl || no_noeol_append;
        let mut lines: Vec<Line> = (0..nlines).map(|_| { let a = rng.pick(AUTHORS).to_string(); let mut l = fresh_line2(&mut rng, &mut tok, &a, no_long); l.fresh = false; l }).collect();
        let mut old = join(&lines, eol, final_nl);
        let mut old_attrs = attrs_for(&lines, eol, final_nl, 1);
        let author = rng.pick(AUTHORS).to_string();
        let mut ops: Vec<String> = Vec::new();
        let mut ws_only = false;
        let kind = rng.below(10);
        let mut new_eol = eol;
        match kind {
            0 => { ops.push("identical".into()); }
            1 | 2 => {
                for _ in 0..1 + rng.below(3) {
                    let r = rng.below(lines.len() + 1);
                    let pos = *rng.pick(&[0usize, lines.len(), r]);
                    let k = 1 + rng.below(4);
                    for j in 0..k { let l = fresh_line2(&mut rng, &mut tok, &author, no_long); lines.insert(pos + j, l); }
                    ops.push(format!("ins@{}+{}", pos, k));
                }
            }
            3 => {
                if !lines.is_empty() {
                    let a = rng.below(lines.len()); let b = (a + 1 + rng.below(3)).min(lines.len());
                    lines.drain(a..b); ops.push(format!("del@{}-{}", a, b));
                }
            }
            4 => {
                if !lines.is_empty() {
                    let a = rng.below(lines.len()); let b = (a + 1 + rng.below(3)).min(lines.len());
                    lines.drain(a..b);
                    let k = 1 + rng.below(3);
                    for j in 0..k { let l = fresh_line2(&mut rng, &mut tok, &author, no_long); lines.insert(a + j, l); }
                    ops.push(format!("rep@{}-{}+{}", a, b, k));
                }
            }
            5 => {
                // whitespace-only reformat: re-indent, trailing blanks, CRLF <-> LF
                ws_only = true;
                match rng.below(4) {
                    3 => {
                        // the blank run between two tokens is rewritten: ASCII <-> non-ASCII blanks (NBSP, ideographic space, VT, FF, ...)
                        for l in lines.iter_mut() {
                            if rng.chance(1, 2) {
                                let cur = l.text[l.gap_at..l.gap_at + l.gap_len].to_string();
                                let mut g = *rng.pick(BLANKS);
                                if g == cur { g = if cur == " " { "\u{00A0}" } else { " " }; }
                                l.text = format!("{}{}{}", &l.text[..l.gap_at], g, &l.text[l.gap_at + l.gap_len..]);
                                l.gap_len = g.len();
                            }
                        }
                        ops.push("gap-blanks".into());
                    }
                    0 => { for l in lines.iter_mut() { if rng.chance(1, 2) { l.text = format!("    {}", l.text); } } ops.push("reindent".into()); }
                    1 => { for l in lines.iter_mut() { if rng.chance(1, 2) { l.text = format!("{}  ", l.text.trim_end()); } } ops.push("trailing".into()); }
                    _ => { new_eol = if eol == "\n" { "\r\n" } else { "\n" }; ops.push("eol-flip".into()); }
                }
            }
            6 => {
                // block move of >= 3 lines
                if lines.len() >= 8 {
                    let a = rng.below(lines.len() - 4); let k = 3 + rng.below(2);
                    let blk: Vec<Line> = lines.drain(a..a + k).collect();
                    let pos = rng.below(lines.len() + 1);
                    for (j, l) in blk.into_iter().enumerate() { lines.insert(pos + j, l); }
                    // which of the two blocks "moved" is the diff's choice: every line between source and destination may be the moved one
                    let (lo, hi) = (a.min(pos), (a + k).max(pos + k).min(lines.len()));
                    for l in lines[lo..hi].iter_mut() { l.moved = true; }
                    ops.push(format!("move@{}+{}->{}", a, k, pos));
                }
            }
            9 => {
                // one contiguous block whose two halves (>= 3 lines each, different prior authors) are both moved in one edit, far
                // enough (past a longer run of untouched lines) that the block is the moved piece, landing swapped - together or apart.
                // Moved blocks of at least the tracker's threshold keep their authors: asserted exactly for these lines.
                let mk = |rng: &mut Rng, tok: &mut usize, a: &str, n: usize| -> Vec<Line> { (0..n).map(|_| { let mut l = fresh_line2(rng, tok, a, true); l.fresh = false; l }).collect() };
                let a1 = rng.pick(AUTHORS).to_string();
                let mut a2 = rng.pick(AUTHORS).to_string();
                if a2 == a1 { a2 = if a1 == "human" { AUTHORS[1].to_string() } else { "human".to_string() }; }
                let x = { let a = rng.pick(AUTHORS).to_string(); let n = 2 + rng.below(3); mk(&mut rng, &mut tok, &a, n) };
                let h1 = { let n = 3 + rng.below(3); mk(&mut rng, &mut tok, &a1, n) };
                let h2 = { let n = 3 + rng.below(3); mk(&mut rng, &mut tok, &a2, n) };
                let y = { let a = rng.pick(AUTHORS).to_string(); let n = 14 + rng.below(5); mk(&mut rng, &mut tok, &a, n) };
                let z = { let a = rng.pick(AUTHORS).to_string(); let n = rng.below(3); mk(&mut rng, &mut tok, &a, n) };
                lines = x.iter().chain(h1.iter()).chain(h2.iter()).chain(y.iter()).chain(z.iter()).cloned().collect();
                old = join(&lines, eol, final_nl);
                old_attrs = attrs_for(&lines, eol, final_nl, 1);
                let strict = |v: &Vec<Line>| -> Vec<Line> { v.iter().cloned().map(|mut l| { l.strict_moved = true; l }).collect() };
                let (s1, s2) = (strict(&h1), strict(&h2));
                let apart = rng.chance(1, 2) || d61_open;
                let mut nl: Vec<Line> = x.clone();
                if apart {
                    let m = 6 + rng.below(y.len() - 11);
                    nl.extend(y[..m].iter().cloned()); nl.extend(s2); nl.extend(y[m..].iter().cloned()); nl.extend(s1);
                } else {
                    nl.extend(y.iter().cloned()); nl.extend(s2); nl.extend(s1);
                }
                nl.extend(z.iter().cloned());
                lines = nl;
                ops.push(format!("split-move:{}+{}:{}", h1.len(), h2.len(), if apart { "apart" } else { "together" }));
            }
            7 => {
                // intra-line token insertion
                if !lines.is_empty() {
                    let a = rng.below(lines.len());
                    tok += 1;
                    lines[a].text = format!("{} mod{:05}", lines[a].text, tok);
                    lines[a].author = author.clone();
                    lines[a].fresh = true;
                    ops.push(format!("mod@{}", a));
                }
            }
            _ => {
                // several independent insertions + one deletion
                if lines.len() > 3 { let a = rng.below(lines.len()); lines.remove(a); ops.push(format!("del1@{}", a)); }
                for _ in 0..2 { let pos = rng.below(lines.len() + 1); let l = fresh_line2(&mut rng, &mut tok, &author, no_long); lines.insert(pos, l); ops.push(format!("ins1@{}", pos)); }
            }
        }
        let new = join(&lines, new_eol, final_nl);
        *counters.entry("structured_cases").or_insert(0) += 1;
        let (o, nw, pr, au) = (old.clone(), new.clone(), old_attrs.clone(), author.clone());
        let res = guarded(move || AttributionTracker::new().update_attributions(&o, &nw, &pr, &au, 5));
        let attrs = match res {
            Err(p) => { viol.push(json!({"kind": "C16/panic-update", "panic": p, "ops": ops, "old": trunc(&old), "new": trunc(&new)})); continue; }
            Ok(Err(e)) => { viol.push(json!({"kind": "C16/error-update", "err": format!("{:?}", e), "ops": ops, "old": trunc(&old), "new": trunc(&new)})); continue; }
            Ok(Ok(a)) => a,
        };
        if let Some(p) = check_bounds(&attrs, &new) {
            if d61_open && kind == 9 && p.contains("char boundaries") {
                *counters.entry("d61_instances(split-move: range boundary inside a multi-byte character)").or_insert(0) += 1;
                continue;
            }
            viol.push(json!({"kind": "C16/bounds-update", "problem": p, "ops": ops, "old": trunc(&old), "new": trunc(&new)}));
            continue;
        }
        let la = attributions_to_line_attributions(&attrs, &new);
        let got = ai_lines(&la);
        *counters.entry("lines_checked").or_insert(0) += lines.len() as u64;
        let mut bad: Option<serde_json::Value> = None;
        for (i, l) in lines.iter().enumerate() {
            let ln = (i + 1) as u32;
            let g = got.get(&ln).cloned().unwrap_or_else(|| "human".to_string());
            if l.text.trim().is_empty() {
                continue;
            }
            if l.strict_moved {
                *counters.entry("strict_moved_lines_checked").or_insert(0) += 1;
                if g != l.author {
                    bad = Some(json!({"kind": "C16/moved-block-lost-author", "line": ln, "text": trunc(&l.text), "truth": l.author, "mover": author, "got": g}));
                    break;
                }
                continue;
            }
            if l.moved {
                // moved blocks keep their authors or take the mover: never a third party
                if g != l.author && g != author {
                    bad = Some(json!({"kind": "C16/moved-line-third-party", "line": ln, "text": trunc(&l.text), "truth": l.author, "mover": author, "got": g}));
                    break;
                }
                if l.author != author {
                    *counters.entry(if g == l.author { "moved_region_lines_kept_author" } else { "moved_region_lines_taken_by_mover" }).or_insert(0) += 1;
                }
                continue;
            }
            if g != l.author {
                let k = if l.fresh { "C16/new-line-not-reporting-author" } else if ws_only { "C16/whitespace-reformat-changed-author" } else if kind == 0 { "C16/identical-text-changed-author" } else { "C16/unchanged-line-changed-author" };
                bad = Some(json!({"kind": k, "line": ln, "text": trunc(&l.text), "truth": l.author, "reporting_author": author, "got": g}));
                break;
            }
        }
        if kind == 9 {
            let shape = ops.last().cloned().unwrap_or_default();
            let apart = if shape.ends_with("apart") { "apart" } else { "together" };
            let verdict = match &bad { None => "held".to_string(), Some(b) => b["kind"].as_str().unwrap_or("?").replace("C16/", "") };
            *counters.entry(Box::leak(format!("split_move:{}:mover={}:{}", apart, if author == "human" { "person" } else { "agent" }, verdict).into_boxed_str())).or_insert(0) += 1;
        }
        if d61_open && kind == 9 && bad.as_ref().map(|b| b["kind"] == "C16/unchanged-line-changed-author").unwrap_or(false) {
            *counters.entry("d61_instances(split-move apart: unchanged line next to the landed block)").or_insert(0) += 1;
            bad = None;
        }
        if let Some(mut b) = bad {
            b["ops"] = json!(ops);
            b["old"] = json!(trunc(&old));
            b["new"] = json!(trunc(&new));
            viol.push(b);
            continue;
        }
        // line -> char -> line returns the same AI lines
        let ca = line_attributions_to_attributions(&la, &new, 7);
        if let Some(p) = check_bounds(&ca, &new) {
            viol.push(json!({"kind": "C16/bounds-line-to-char", "problem": p, "new": trunc(&new)}));
            continue;
        }
        let la2 = attributions_to_line_attributions(&ca, &new);
        if ai_lines(&la2) != got {
            viol.push(json!({"kind": "C16/line-char-line-roundtrip", "before": format!("{:?}", got), "after": format!("{:?}", ai_lines(&la2)), "new": trunc(&new)}));
            continue;
        }
        sigs.insert(format!("{}|{}|eol{}|nl{}|n{}", ops.iter().map(|o| o.split('@').next().unwrap_or("")).collect::<Vec<_>>().join("+"), &author[..2], eol.len(), final_nl, bucket(nlines)));
        if samples.len() < 3 && !ops.is_empty() {
            samples.push(json!({"ops": ops, "author": author, "old": trunc(&old), "new": trunc(&new), "ai_lines": format!("{:?}", got)}));
        }
    }
    json!({"cases": n, "violations": viol, "distinct": sigs.len(), "counters": counters, "samples": samples}).to_string()
}

fn floor_boundary(s: &str, mut i: usize) -> usize {
    if i > s.len() { return i; }
    while i > 0 && !s.is_char_boundary(i) { i -= 1; }
    i
}

fn count_lines(s: &str) -> u32 {
    if s.is_empty() { return 0; }
    let n = s.matches('\n').count() as u32;
    if s.ends_with('\n') { n } else { n + 1 }
}

fn bucket(n: usize) -> usize {
    match n { 0 => 0, 1..=2 => 1, 3..=10 => 2, 11..=60 => 3, _ => 4 }
}

fn trunc(s: &str) -> String {
    if std::env::var("PROBE_FULL").is_ok() { return s.to_string(); }
    if s.len() <= 600 { s.to_string() } else { let mut e = 600; while !s.is_char_boundary(e) { e -= 1; } format!("{}…[{} bytes]", &s[..e], s.len()) }
}

fn fmt_attrs(a: &[Attribution]) -> String {
    a.iter().map(|x| format!("{}..{}:{}@{}", x.start, x.end, &x.author_id[..2], x.ts)).collect::<Vec<_>>().join(" ")
}


/// `probe c16eval` — evaluate one explicit input (JSON on stdin): {"old","new","prior":[[start,end,author,ts]],"author"}.
pub fn eval() -> String {
    let mut inp = String::new();
    use std::io::Read;
    std::io::stdin().read_to_string(&mut inp).unwrap();
    let v: serde_json::Value = serde_json::from_str(&inp).unwrap();
    let old = v["old"].as_str().unwrap_or("").to_string();
    let new = v["new"].as_str().unwrap_or("").to_string();
    let author = v["author"].as_str().unwrap_or("human").to_string();
    let prior: Vec<Attribution> = v["prior"].as_array().cloned().unwrap_or_default().iter().map(|a| Attribution {
        start: a[0].as_u64().unwrap_or(0) as usize, end: a[1].as_u64().unwrap_or(0) as usize,
        author_id: a[2].as_str().unwrap_or("human").to_string(), ts: a[3].as_u64().unwrap_or(0) as u128 }).collect();
    let (o, n2, p2, a2) = (old.clone(), new.clone(), prior.clone(), author.clone());
    match guarded(move || AttributionTracker::new().update_attributions(&o, &n2, &p2, &a2, 5)) {
        Err(p) => json!({"panic": p}).to_string(),
        Ok(Err(e)) => json!({"error": format!("{:?}", e)}).to_string(),
        Ok(Ok(attrs)) => {
            let la = attributions_to_line_attributions(&attrs, &new);
            json!({"bounds_problem": check_bounds(&attrs, &new), "attrs": attrs.iter().map(|a| json!([a.start, a.end, a.author_id, a.ts as u64])).collect::<Vec<_>>(),
                   "ai_lines": ai_lines(&la).into_iter().map(|(k, v)| json!([k, v])).collect::<Vec<_>>()}).to_string()
        }
    }
}
